#!/usr/bin/env python3-vt
# validate MANIFEST.json and evidence files against the schemas
import json, jsonschema, glob, sys
ok = True
try:
    jsonschema.validate(json.load(open('/verif/MANIFEST.json')), json.load(open('/root/.vp/MANIFEST.schema.json')))
except Exception as e:
    ok = False; print('MANIFEST:', e)
for f in sorted(glob.glob('/verif/evidence/*.json')):
    try:
        jsonschema.validate(json.load(open(f)), json.load(open('/root/.vp/EVIDENCE.schema.json')))
    except Exception as e:
        ok = False; print(f, str(e)[:300])
print('valid' if ok else 'INVALID'); sys.exit(0 if ok else 1)
