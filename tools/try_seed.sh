#!/bin/bash
# tools/try_seed.sh <worktree> <prop> [<prop>...] : run quick checks against a mutated scratch worktree
wt=$1; shift
cd "$(dirname "$0")/.."
# scratch work dir and a stand-in VERIF_DIR (replays and evidence of these runs stay out of /verif)
mkdir -p /tmp/vwork-seed/verifdir
ln -sfn /verif/engine /tmp/vwork-seed/verifdir/engine
cp /verif/known_findings.json /tmp/vwork-seed/verifdir/known_findings.json
for p in "$@"; do
  out=$(VERIF_REPO=$wt VERIF_WORK=/tmp/vwork-seed VERIF_DIR=/tmp/vwork-seed/verifdir ./check $p quick 2>&1); rc=$?
  echo "== $p rc=$rc"; echo "$out" | grep -E "^VIOLATION|signature|case:|KNOWN|INCONCLUSIVE|^C[0-9]" | cut -c1-300 | head -14
done
