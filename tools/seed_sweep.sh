#!/bin/bash
# run every quick check under several seeds; print one line per (seed, property) and any alarm
cd "$(dirname "$0")/.."
for seed in "$@"; do
  for p in C01 C02 C03 C04 C05 C06 C07 C08 C09 C10 C11 C12 C13 C14 C15 C16; do
    out=$(VERIF_SEED=$seed ./check $p quick 2>&1); rc=$?
    echo "seed=$seed $p rc=$rc $(echo "$out" | tail -1 | cut -c1-160)"
    echo "$out" | grep -E "^VIOLATION|INCONCLUSIVE" | head -5
    echo "$out" | grep -A3 -E "^VIOLATION" | grep -E "signature|case" | head -6
  done
done
