#!/bin/bash
# run the repository's pinned suite (hooks: none) and print pass/fail counts
cd /repo && cargo test --workspace --no-fail-fast --offline 2>&1 | grep -E "^test result|FAILED|panicked" | awk '/^test result/ {p+=$4; f+=$6} /FAILED|panicked/ {print} END {print "passed",p,"failed",f; exit (f>0)}'
