#!/bin/bash
# confirm_seed.sh <worktree> <outdir>: worktree diff equals patch.diff and the repository suite passes with it
set -u
wt=$1; out=$2
if ! diff <(git -C "$wt" diff) "$out/patch.diff" >/dev/null; then echo "DIFF-MISMATCH $wt"; fi
cd "$wt" && CARGO_NET_OFFLINE=true cargo test --workspace --no-fail-fast --offline 2>&1 | grep -E "^test result" | awk '{p+=$4; f+=$6} END {print "'$wt' passed=" p " failed=" f}'
