#!/usr/bin/env python3
"""mk_seed_round.py <round-number> <dir>: scratch worktrees of /repo, PROPERTY.txt and prompt files for one round of
independently seeded changes. Each sub-agent sees only the property text, its worktree, and one-line descriptions of the
mechanisms already used against that property (so that it picks a different one) - nothing from /verif."""
import json, os, subprocess, sys, glob
rnd, root = sys.argv[1], sys.argv[2]
props = [json.loads(l) for l in open('/verif/properties.jsonl')]
os.makedirs(root, exist_ok=True)
for p in props:
    pid = p['id']
    wt = f"{root}/{pid}"; out = f"{root}/{pid}-out"
    os.makedirs(out, exist_ok=True)
    if not os.path.isdir(wt):
        subprocess.run(["git", "-C", "/repo", "worktree", "add", "--detach", wt], check=True, capture_output=True)
    text = p.get('statement') or p.get('text') or json.dumps(p)
    open(f"{out}/PROPERTY.txt", "w").write(f"Property {pid}\n\n{text}\n")
    earlier = []
    for m in sorted(glob.glob(f"/verif/seeded/{pid}*/meta.json")):
        earlier.append(json.load(open(m)).get('needs', ''))
    letters = "abcdefghijklmnopqrstuvwxyz"
    el = "\n".join(f"     ({letters[i]}) {e}" for i, e in enumerate(earlier) if e)
    prompt = f"""You are helping test a verification framework by planting a realistic, subtle bug.

The Rust project greyblake/nutype (a proc-macro crate generating validated newtypes; crates `nutype` and `nutype_macros`) is checked out in your own scratch git worktree at {wt} . Work ONLY inside {wt} and write your deliverables to {out}/ . Do NOT read or touch /verif, /repo or any other {root}/* directory. Everything is offline: use `cargo ... --offline` (set CARGO_NET_OFFLINE=true).

The semantic property you must BREAK is described in {out}/PROPERTY.txt (read it first).

Task: make a small change to the nutype source (usually under nutype_macros/src/) such that
  1. the workspace still compiles and the existing test suite still passes: `cd {wt} && cargo test --workspace --no-fail-fast --offline` must report 0 failures (run it before and after your change);
  2. the property is violated for SOME inputs / declarations / client programs;
  3. the violation needs something specific to manifest - an unusual input, a particular combination of attributes (sanitizer order, inner type, validator pairing, bound spelled as an expression, const_fn, generics, lifetimes, a specific derive set or crate feature), a multi-step sequence of operations, or two cooperating sites that each look fine alone. It must NOT be something any ordinary use would expose at once. Think like a plausible refactoring mistake or an 'optimisation' a maintainer might make. Be creative: prefer a region of the code, an inner-type family (string / integer / float / "any other type" incl. generic and lifetime-parameterised newtypes), a trait or a crate feature that the earlier attempts below did NOT touch.
  4. Earlier attempts already used these ideas, so choose a clearly DIFFERENT mechanism:
{el}

Deliverables in {out}/ :
  - patch.diff : output of `git -C {wt} diff` (the change only; do not commit)
  - a demonstration: a small standalone Rust program or test (e.g. a demo/ cargo project with `nutype = {{ path = "{wt}/nutype", features = [...] }}`, or a test file plus the exact command) that FAILS with your change applied and PASSES without it (for compile-time properties: a program whose compile verdict changes). Verify both directions yourself. IMPORTANT: do NOT use `git stash` (it is shared with other worktrees); to test without your change use `git -C {wt} diff > {out}/patch.diff && git -C {wt} apply -R {out}/patch.diff`, and re-apply with `git -C {wt} apply {out}/patch.diff`.
  - NOTES.md : which property it breaks, what exactly is needed for the violation to manifest, what you ran and what you observed (test-suite pass counts before/after, demo fail/pass).

For a cargo demo project outside the workspace, copy {wt}/Cargo.lock next to its Cargo.toml so dependencies resolve offline, and add an empty `[workspace]` table to its Cargo.toml. Available offline crates include serde, serde_json, ron, rmp-serde, regex, arbitrary, lazy_static, once_cell. Cargo features of nutype: serde, regex, arbitrary, new_unchecked (enable what you need).

Leave the change applied in the worktree when you finish. Report back a 5-line summary.
"""
    open(f"{root}/prompt-{pid}.txt", "w").write(prompt)
print("ok", len(props))
