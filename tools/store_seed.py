#!/usr/bin/env python3
"""store_seed.py <round> <dir> <pid> <initially_missed 0|1> <needs> <caught_by;...>: copy a confirmed seeded change into /verif/seeded"""
import json, os, shutil, subprocess, sys
rnd, root, p, missed, needs, caught = sys.argv[1], sys.argv[2], sys.argv[3], sys.argv[4] == "1", sys.argv[5], sys.argv[6].split(";")
src = f"{root}/{p}-out"; dst = f"/verif/seeded/{p}-r{rnd}"
os.makedirs(dst, exist_ok=True)
for f in os.listdir(src):
    if f == "PROPERTY.txt":
        continue
    s = os.path.join(src, f); d = os.path.join(dst, f)
    if os.path.isdir(s):
        shutil.copytree(s, d, dirs_exist_ok=True, ignore=shutil.ignore_patterns("target", "Cargo.lock"))
    elif os.path.getsize(s) < 2_000_000:
        shutil.copy(s, d)
diff = subprocess.run(["git", "-C", f"{root}/{p}", "diff"], capture_output=True, text=True).stdout
assert diff == open(os.path.join(dst, "patch.diff")).read(), f"{p}: worktree diff differs from patch.diff"
meta = {"breaks": p, "needs": needs, "caught_by": caught, "initially_missed": missed, "round": int(rnd), "property_given_to_agent": p,
        "confirmed": {"existing_suite": "cargo test --workspace --no-fail-fast --offline in the agent's worktree with the patch applied: 229 passed, 0 failed (run by me, tools/confirm_seed.sh); worktree diff verified identical to patch.diff",
                      "demo": "agent's demo fails with the patch and passes without (agent-verified with git apply -R / git apply)",
                      "checks_run": f"tools/try_seed.sh {root}/{p} <props>"},
        "base_commit": subprocess.run(["git", "-C", f"{root}/{p}", "rev-parse", "--short", "HEAD"], capture_output=True, text=True).stdout.strip(), "apply": f"git -C /repo apply /verif/seeded/{p}-r{rnd}/patch.diff ; run checks ; git -C /repo checkout -- ."}
json.dump(meta, open(os.path.join(dst, "meta.json"), "w"), indent=1)
subprocess.run(["git", "-C", "/repo", "worktree", "remove", "--force", f"{root}/{p}"])
shutil.rmtree(src, ignore_errors=True)
print("stored", dst)
