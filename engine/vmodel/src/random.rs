//! Seed-dependent random declarations (DESIGN §3.2), generated with proptest strategies
//! from the same grammar as the catalogue. Sound by construction: only declarations the
//! documented grammar admits are produced (bounds consistent, derive prerequisites met),
//! so that a rejection by the macro is itself an observation (C08), not noise.

use crate::catalogue::*;
use crate::decl::*;
use proptest::prelude::*;
use proptest::sample::Index;
use proptest::strategy::ValueTree;
use proptest::test_runner::{Config, RngAlgorithm, TestRng, TestRunner};

fn runner(seed: u64, salt: &[u8; 8]) -> TestRunner {
    let mut bytes = [0u8; 32];
    bytes[..8].copy_from_slice(&seed.to_le_bytes());
    bytes[8..16].copy_from_slice(salt);
    TestRunner::new_with_rng(Config { failure_persistence: None, ..Config::default() }, TestRng::from_seed(RngAlgorithm::ChaCha, &bytes))
}

/// raw random choices; interpreted by `build` (indices are mapped monotonically)
#[derive(Clone, Debug)]
struct Choices {
    inner: Index,
    san: Vec<Index>,
    san_form: Vec<Index>,
    n_vals: Index,
    val_kinds: Vec<Index>,
    bound_pos: Vec<Index>,
    bound_spell: Vec<Index>,
    derive_bits: u32,
    default_kind: Index,
    layout: Vec<Index>,
    commas: (bool, bool),
    custom_validation: Index,
}

fn choices() -> impl Strategy<Value = Choices> {
    (
        any::<Index>(),
        proptest::collection::vec(any::<Index>(), 10),
        proptest::collection::vec(any::<Index>(), 4),
        any::<Index>(),
        proptest::collection::vec(any::<Index>(), 6),
        proptest::collection::vec(any::<Index>(), 6),
        proptest::collection::vec(any::<Index>(), 6),
        any::<u32>(),
        any::<Index>(),
        proptest::collection::vec(any::<Index>(), 6),
        any::<(bool, bool)>(),
        any::<Index>(),
    )
        .prop_map(|(inner, san, san_form, n_vals, val_kinds, bound_pos, bound_spell, derive_bits, default_kind, layout, commas, custom_validation)| Choices {
            inner,
            san,
            san_form,
            n_vals,
            val_kinds,
            bound_pos,
            bound_spell,
            derive_bits,
            default_kind,
            layout,
            commas,
            custom_validation,
        })
}

const INNERS: [Inner; 19] = [
    Inner::Str,
    Inner::Int(IntTy::U8),
    Inner::Int(IntTy::U16),
    Inner::Int(IntTy::U32),
    Inner::Int(IntTy::U64),
    Inner::Int(IntTy::U128),
    Inner::Int(IntTy::Usize),
    Inner::Int(IntTy::I8),
    Inner::Int(IntTy::I16),
    Inner::Int(IntTy::I32),
    Inner::Int(IntTy::I64),
    Inner::Int(IntTy::I128),
    Inner::Int(IntTy::Isize),
    Inner::F32,
    Inner::F64,
    Inner::VecI32,
    Inner::Point,
    Inner::CowF32,
    Inner::VecU8,
];

fn int_bound(t: IntTy, pos: &Index, spell: &Index, lower: bool) -> Bound {
    // positions: a spread over the type's range; lower bounds from the lower half, upper from the upper half
    let lows: Vec<i128> = vec![t.min_v(), t.min_v(), t.min_v() + 1, if t.signed() { -100 } else { 0 }, if t.signed() { -1 } else { 1 }, 0, 1, 3];
    let highs: Vec<i128> = vec![4, 7, 20, 100, 126, t.max_v() - 1, t.max_v(), t.max_v()];
    let v = if lower { lows[pos.index(lows.len())] } else { highs[pos.index(highs.len())] };
    // expression spellings that denote exactly `v` exist only for some values; otherwise a literal
    let sp = spell.index(6);
    let n = t.name();
    match (sp, v) {
        (0, 100) => expr_i("const", "KB", 100),
        (1, 3) => expr_i("mod-const", "k::KM", 3),
        (2, 4) => expr_i("shift", "ONE << 2", 4),
        (3, 7) => expr_i("bitor", "KA | 2", 7),
        (4, 20) => expr_i("arith-paren", "(KA + 5) * 2", 20),
        (0, x) if x == t.max_v() => expr_i("type-max", &format!("{n}::MAX"), x),
        (1, x) if x == t.min_v() => expr_i("type-min", &format!("{n}::MIN"), x),
        (2, x) if x == t.max_v() - 1 => expr_i("type-max-arith", &format!("{n}::MAX - 1"), x),
        (3, -1) => expr_i("paren-neg-const", "(-ONE)", -1),
        (4, -100) => expr_i("neg-const", "-KB", -100),
        (5, 0) => expr_i("arith-sub", "KA - KA", 0),
        _ => {
            if t == IntTy::U128 && v == i128::MAX {
                expr_i("type-max", "u128::MAX", v)
            } else {
                lit_i(v)
            }
        }
    }
}

fn float_bound(ty: &str, pos: &Index, spell: &Index, lower: bool) -> Bound {
    let big = if ty == "f32" { 3e38 } else { 1.5e308 };
    let lows = [-big, -1e30, -1000.5, -5.0, -1.0, -0.0, 0.0, 1e-3, 1.0];
    let highs = [2.5, 7.0, 100.0, 1000.0, 16777217.0, 1e30, big];
    let v: f64 = if lower { lows[pos.index(lows.len())] } else { highs[pos.index(highs.len())] };
    if v.abs() == big && spell.index(3) == 0 {
        let text = if v < 0.0 { format!("{ty}::MIN") } else { format!("{ty}::MAX") };
        return expr_f(if v < 0.0 { "type-min" } else { "type-max" }, &text, if v < 0.0 { f64::MIN } else { f64::MAX });
    }
    match (spell.index(5), v) {
        (0, x) if x == 100.0 => expr_f("const", "KB", 100.0),
        (1, x) if x == -5.0 => expr_f("neg-const", "-KA", -5.0),
        (2, x) if x == 7.0 => expr_f("arith", "KA + 2.0", 7.0),
        (3, x) if x == 1.0 => expr_f("const", "ONE", 1.0),
        (4, x) if x == -1.0 => expr_f("neg-paren-const", "-(ONE)", -1.0),
        (0, x) if x == 1e30 => expr_f("block", &format!("{{ 1e30 as {ty} }}"), 1e30),
        _ => lit_f(v),
    }
}

fn build(c: &Choices) -> Decl {
    let inner = INNERS[c.inner.index(INNERS.len())];
    let mut d = Decl::new(inner);
    let form = |i: usize| FN_FORMS[c.san_form[i % c.san_form.len()].index(FN_FORMS.len())];
    // sanitizers
    match inner {
        Inner::Str => {
            // a random prefix of a random order of {trim, lowercase|uppercase, one custom}
            // (the macro rejects lowercase together with uppercase)
            let pool: Vec<SanSpec> = vec![
                SanSpec::Trim,
                if c.san[0].index(2) == 0 { SanSpec::Lower } else { SanSpec::Upper },
                SanSpec::With(FnRef::new(["s_trunc5", "s_appendx", "s_padsp", "s_repl", "s_prepz", "s_at2sp", "s_bang2z"][c.san[1].index(7)], form(0))),
            ];
            let mut order: Vec<usize> = vec![0, 1, 2];
            for i in 0..2 {
                let j = i + c.san[4 + i].index(3 - i);
                order.swap(i, j);
            }
            // 0..=3 sanitizers, biased towards 2-3
            let n = [0, 1, 2, 2, 3, 3][c.san[3].index(6)];
            d.sans = order.into_iter().take(n).map(|i| pool[i].clone()).collect();
        }
        Inner::Int(_) => {
            if c.san[0].index(3) == 0 {
                d.sans = vec![SanSpec::With(FnRef::new(["s_clamp", "s_wadd1", "s_half", "s_even"][c.san[1].index(4)], form(0)))];
            }
        }
        Inner::F32 | Inner::F64 => {
            if c.san[0].index(3) == 0 {
                d.sans = vec![SanSpec::With(FnRef::new(["s_clamp", "s_nan0", "s_neg", "s_add1", "s_abs", "s_recip", "s_quad", "s_big2inf"][c.san[1].index(8)], form(0)))];
            }
        }
        Inner::VecI32 => {
            if c.san[0].index(2) == 0 {
                d.sans = vec![SanSpec::With(FnRef::new(["s_sort", "s_dedup", "s_push0", "s_take3"][c.san[1].index(4)], form(0)))];
            }
        }
        Inner::Point => {
            if c.san[0].index(2) == 0 {
                d.sans = vec![SanSpec::With(FnRef::new(["s_abs", "s_swap"][c.san[1].index(2)], form(0)))];
            }
        }
        Inner::VecU8 => {
            if c.san[0].index(2) == 0 {
                d.sans = vec![SanSpec::With(FnRef::new(["s_sort", "s_take3", "s_push0"][c.san[1].index(3)], form(0)))];
            }
        }
        Inner::CowF32 => {
            if c.san[0].index(2) == 0 {
                d.sans = vec![SanSpec::With(FnRef::new(["s_abs_all", "s_take3", "s_push0"][c.san[1].index(3)], form(0)))];
            }
        }
    }
    // validators
    let custom = c.custom_validation.index(8) == 0;
    // contradictory bounds can only be spelled as expressions (literal ones are rejected by the macro)
    let contradictory = c.san[7].index(10) == 0;
    let pform = |i: usize| form(i + 1);
    if custom {
        d.vals = Vals::Custom(FnRef::new(
            match inner {
                Inner::Str => "v_nobang",
                Inner::Int(_) | Inner::F32 | Inner::F64 => "v_small",
                Inner::VecI32 => "v_sum",
                Inner::Point => "v_far",
                Inner::CowF32 | Inner::VecU8 => "v_sum",
            },
            FnForm::Path,
        ));
    } else {
        let mut pool: Vec<ValSpec> = vec![];
        match inner {
            Inner::Int(t) => {
                // one lower, one upper, one predicate; consistent by construction (lower from the low half)
                let (lower, upper) = if contradictory {
                    (expr_i("const", "KB", 100), [expr_i("const", "KA", 5), expr_i("mod-const", "k::KM", 3), expr_i("shift", "ONE << 2", 4)][c.bound_spell[1].index(3)].clone())
                } else {
                    (int_bound(t, &c.bound_pos[0], &c.bound_spell[0], true), int_bound(t, &c.bound_pos[1], &c.bound_spell[1], false))
                };
                pool.push(if c.val_kinds[0].index(2) == 0 { ValSpec::Greater(lower) } else { ValSpec::GreaterEq(lower) });
                pool.push(if c.val_kinds[1].index(2) == 0 { ValSpec::Less(upper) } else { ValSpec::LessEq(upper) });
                pool.push(ValSpec::Predicate(FnRef::new(["p_even", "p_not7"][c.val_kinds[2].index(2)], pform(0))));
            }
            Inner::F32 | Inner::F64 => {
                let (lower, upper) = if contradictory {
                    (expr_f("const", "KB", 100.0), [expr_f("const", "ONE", 1.0), expr_f("neg-const", "-KA", -5.0), expr_f("arith", "KA + 2.0", 7.0)][c.bound_spell[1].index(3)].clone())
                } else {
                    (float_bound(inner.ty(), &c.bound_pos[0], &c.bound_spell[0], true), float_bound(inner.ty(), &c.bound_pos[1], &c.bound_spell[1], false))
                };
                pool.push(if c.val_kinds[0].index(2) == 0 { ValSpec::Greater(lower) } else { ValSpec::GreaterEq(lower) });
                pool.push(if c.val_kinds[1].index(2) == 0 { ValSpec::Less(upper) } else { ValSpec::LessEq(upper) });
                pool.push(ValSpec::Finite);
                pool.push(ValSpec::Predicate(FnRef::new(["p_not50", "p_integral"][c.val_kinds[2].index(2)], pform(0))));
            }
            Inner::Str => {
                let lo = [0u128, 1, 2, 3][c.bound_pos[0].index(4)];
                let hi = [3u128, 4, 5, 8, 12, 40][c.bound_pos[1].index(6)];
                if contradictory {
                    pool.push(ValSpec::LenCharMin(spelled("const", "KA", "KA", Num::U(5), false)));
                    pool.push(ValSpec::LenCharMax(spelled("mod-const", "k::KM", "k::KM", Num::U(3), false)));
                } else {
                pool.push(ValSpec::LenCharMin(if c.bound_spell[0].index(3) == 0 && lo == 3 { spelled("mod-const", "k::KM", "k::KM", Num::U(3), false) } else { lit_u(lo) }));
                pool.push(ValSpec::LenCharMax(if c.bound_spell[1].index(3) == 0 && hi == 5 { spelled("const", "KA", "KA", Num::U(5), false) } else { lit_u(hi) }));
                }
                pool.push(ValSpec::NotEmpty);
                pool.push(ValSpec::Predicate(FnRef::new(["p_has_at", "p_ascii", "p_no_a"][c.val_kinds[2].index(3)], pform(0))));
                pool.push(ValSpec::Regex {
                    pattern: ["^[a-zA-Z@ ßİ]*$", "^.{0,6}$", "[a-z0-9]", "^\\S+$"][c.val_kinds[3].index(4)].to_string(),
                    form: [RegexForm::Literal, RegexForm::LazyLock, RegexForm::LazyStatic, RegexForm::OnceCell][c.val_kinds[4].index(4)].clone(),
                });
            }
            Inner::VecI32 => pool.push(ValSpec::Predicate(FnRef::new(["p_nonempty", "p_short"][c.val_kinds[2].index(2)], pform(0)))),
            Inner::Point => pool.push(ValSpec::Predicate(FnRef::new(["p_xpos", "p_diag"][c.val_kinds[2].index(2)], pform(0)))),
            Inner::VecU8 => pool.push(ValSpec::Predicate(FnRef::new(["p_nonempty", "p_short", "p_utf8"][c.val_kinds[2].index(3)], pform(0)))),
            Inner::CowF32 => pool.push(ValSpec::Predicate(FnRef::new(["p_nonempty", "p_short", "p_no_nan"][c.val_kinds[2].index(3)], pform(0)))),
        }
        // random subset in random order
        let n = c.n_vals.index(pool.len() + 1);
        let mut order: Vec<usize> = (0..pool.len()).collect();
        for i in 0..order.len() {
            let j = i + c.layout[i % c.layout.len()].index(order.len() - i);
            order.swap(i, j);
        }
        let picked: Vec<ValSpec> = order.into_iter().take(n).map(|i| pool[i].clone()).collect();
        d.vals = if picked.is_empty() { Vals::None } else { Vals::Std(picked) };
    }
    // generic declarations `W<T: HasX>(T)` / `W<T: Ord + Clone>(Vec<T>)`: the same rules through the generic
    // twins of the custom functions (the harness instantiates them at Point / i32)
    if c.san[8].index(3) == 0 && matches!(inner, Inner::Point | Inner::VecI32) {
        let generic_name = |n: &str| match (inner, n) {
            (Inner::Point, "p_xpos") => Some("g_p_xpos"),
            (Inner::VecI32, "s_sort") => Some("g_s_sort"),
            (Inner::VecI32, "s_dedup") => Some("g_s_dedup"),
            (Inner::VecI32, "s_take3") => Some("g_s_take3"),
            (Inner::VecI32, "p_nonempty") => Some("g_p_nonempty"),
            (Inner::VecI32, "p_short") => Some("g_p_short"),
            _ => None,
        };
        let sans_ok = d.sans.iter().all(|s| matches!(s, SanSpec::With(fr) if generic_name(&fr.name).is_some()));
        let vals_ok = match &d.vals {
            Vals::None => true,
            Vals::Custom(_) => false,
            Vals::Std(vs) => vs.iter().all(|v| matches!(v, ValSpec::Predicate(fr) if generic_name(&fr.name).is_some())),
        };
        if sans_ok && vals_ok {
            let rename = |fr: &mut FnRef| {
                fr.name = generic_name(&fr.name).unwrap().to_string();
                if fr.form == FnForm::ConstPath {
                    fr.form = FnForm::Closure;
                }
            };
            for s in d.sans.iter_mut() {
                if let SanSpec::With(fr) = s {
                    rename(fr);
                }
            }
            if let Vals::Std(vs) = &mut d.vals {
                for v in vs.iter_mut() {
                    if let ValSpec::Predicate(fr) = v {
                        rename(fr);
                    }
                }
            }
            d.generic = if inner == Inner::Point { Generic::T } else { Generic::VecT };
            d.tags.push("random:generic".into());
        }
    }
    // default
    // a default exactly at one of the declared bounds (the interesting place for exclusive bounds)
    let bound_texts: Vec<String> = d.std_vals().iter().filter_map(|v| v.bound()).filter(|_| !matches!(inner, Inner::Str)).map(|b| b.neutral_text.clone()).collect();
    match c.default_kind.index(6) {
        0 => {}
        4 | 5 if !bound_texts.is_empty() => {
            let t = bound_texts[c.default_kind.index(bound_texts.len())].clone();
            d.default = Some(DefaultSpec { macro_text: t.clone(), neutral_text: t, class: "at-bound".into() });
        }
        4 | 5 => {}
        k => {
            let (m, class) = match inner {
                Inner::Int(_) => [("5", "maybe"), ("100", "maybe"), ("KA + 2", "expr")][k - 1],
                Inner::F32 | Inner::F64 => [("2.5", "maybe"), ("-0.0", "neg-zero"), ("KB", "expr")][k - 1],
                Inner::Str => [("\"ab@c\"", "maybe"), ("\"  Ab \"", "needs-sanitising"), ("\"\"", "maybe-invalid")][k - 1],
                Inner::VecI32 => [("vec![2, 1]", "maybe"), ("Vec::new()", "maybe-invalid"), ("vec![7; 5]", "maybe")][k - 1],
                Inner::Point => [("Point { x: 3, y: -4 }", "maybe"), ("Point { x: -3, y: -3 }", "maybe-invalid"), ("Point::default()", "expr")][k - 1],
                Inner::VecU8 => [("vec![2, 1]", "maybe"), ("Vec::new()", "maybe-invalid"), ("vec![7; 5]", "maybe")][k - 1],
                Inner::CowF32 => [("Cow::Borrowed(&[2.0, -1.0])", "maybe"), ("Cow::Owned(Vec::new())", "maybe-invalid"), ("Cow::Owned(vec![7.0; 5])", "maybe")][k - 1],
            };
            d.default = Some(DefaultSpec { macro_text: m.into(), neutral_text: m.into(), class: class.into() });
        }
    }
    // a generic declaration can only state a default that is generic too
    if d.default.is_some() {
        match d.generic {
            Generic::None => {}
            Generic::T => d.default = Some(DefaultSpec { macro_text: "T::default()".into(), neutral_text: "Point::default()".into(), class: "generic-depends-on-T".into() }),
            Generic::VecT => d.default = Some(DefaultSpec { macro_text: "Vec::new()".into(), neutral_text: "Vec::new()".into(), class: "maybe-invalid".into() }),
        }
    }
    // derive set: random subset of the admissible traits, prerequisites added
    let mut all = full_derives(&d);
    // nothing validated: `From`, or `TryFrom` with an uninhabited error (never both: they overlap)
    if c.san[9].index(2) == 0 {
        for t in all.iter_mut() {
            if *t == Tr::From {
                *t = Tr::TryFrom;
            }
        }
        all.sort();
    }
    let mut picked: Vec<Tr> = all.iter().enumerate().filter(|(i, _)| c.derive_bits & (1 << (i % 32)) != 0).map(|(_, t)| *t).collect();
    let need = |p: &mut Vec<Tr>, t: Tr| {
        if !p.contains(&t) {
            p.push(t)
        }
    };
    if picked.contains(&Tr::Ord) {
        need(&mut picked, Tr::PartialOrd);
        need(&mut picked, Tr::Eq);
    }
    if picked.contains(&Tr::Eq) || picked.contains(&Tr::PartialOrd) {
        need(&mut picked, Tr::PartialEq);
    }
    if picked.contains(&Tr::Copy) {
        need(&mut picked, Tr::Clone);
    }
    picked.retain(|t| all.contains(t));
    // each prerequisite must itself be admissible (e.g. float Eq only with finite)
    if picked.contains(&Tr::Ord) && !(all.contains(&Tr::Eq) && all.contains(&Tr::PartialOrd)) {
        picked.retain(|t| *t != Tr::Ord);
    }
    // an empty valid set leaves nothing for Arbitrary to produce
    let has_lo = d.std_vals().iter().any(|v| matches!(v, ValSpec::Greater(_) | ValSpec::GreaterEq(_) | ValSpec::LenCharMin(_)));
    let has_hi = d.std_vals().iter().any(|v| matches!(v, ValSpec::Less(_) | ValSpec::LessEq(_) | ValSpec::LenCharMax(_)));
    if contradictory && has_lo && has_hi {
        picked.retain(|t| *t != Tr::Arbitrary);
        d.tags.push("random:contradictory".into());
    }
    picked.sort();
    picked.dedup();
    // the order in which traits are listed carries no meaning: a random one
    for i in 0..picked.len() {
        let j = i + c.bound_pos[i % c.bound_pos.len()].index(picked.len() - i);
        picked.swap(i, j);
    }
    d.derives = picked;
    // layout
    let blocks = [Block::Sanitize, Block::Validate, Block::Derive, Block::Default, Block::ConstFn, Block::NewUnchecked];
    let mut order: Vec<usize> = (0..6).collect();
    for i in 0..6 {
        let j = i + c.layout[i].index(6 - i);
        order.swap(i, j);
    }
    d.layout = Layout { order: order.into_iter().map(|i| blocks[i]).collect(), trailing_comma_outer: c.commas.0, trailing_comma_inner: c.commas.1 };
    d.new_unchecked = c.derive_bits & (1 << 31) != 0;
    // const_fn on numeric / Point declarations: custom functions must then be `const fn` paths
    if c.derive_bits & (1 << 30) != 0 && c.derive_bits & (1 << 29) != 0 && !matches!(inner, Inner::Str | Inner::VecI32 | Inner::CowF32 | Inner::VecU8) && d.generic == Generic::None {
        let const_ok = |fr: &FnRef| match inner {
            Inner::Int(_) => matches!(fr.name.as_str(), "s_clamp" | "s_wadd1" | "p_even" | "v_small"),
            Inner::F32 | Inner::F64 => matches!(fr.name.as_str(), "s_clamp" | "p_not50"),
            Inner::Point => matches!(fr.name.as_str(), "s_abs" | "p_xpos"),
            _ => false,
        };
        let sans_ok = d.sans.iter().all(|s| matches!(s, SanSpec::With(fr) if const_ok(fr)));
        let vals_ok = match &d.vals {
            Vals::None => true,
            Vals::Custom(fr) => const_ok(fr) && inner.is_int(),
            Vals::Std(vs) => vs.iter().all(|v| match v {
                ValSpec::Predicate(fr) => const_ok(fr),
                _ => true,
            }),
        };
        if sans_ok && vals_ok {
            d.const_fn = true;
            for s in d.sans.iter_mut() {
                if let SanSpec::With(fr) = s {
                    fr.form = FnForm::ConstPath;
                }
            }
            match &mut d.vals {
                Vals::Custom(fr) => fr.form = FnForm::ConstPath,
                Vals::Std(vs) => {
                    for v in vs.iter_mut() {
                        if let ValSpec::Predicate(fr) = v {
                            fr.form = FnForm::ConstPath;
                        }
                    }
                }
                Vals::None => {}
            }
            d.tags.push("random:const_fn".into());
        }
    }
    d.tags.insert(0, "random".into());
    d
}

pub fn random_decls(seed: u64, n: usize) -> Vec<Decl> {
    let mut r = runner(seed, b"rtrandom");
    let s = choices();
    (0..n).map(|_| build(&s.new_tree(&mut r).expect("strategy").current())).collect()
}
