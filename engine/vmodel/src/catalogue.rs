//! Systematic, seed-independent catalogue of declarations for the run-time corpus
//! (DESIGN §3.2): every generator code path × inner type × rule kind × spelling
//! class × trait appears at least once.

use crate::decl::*;

// ---------------------------------------------------------------- bounds

pub fn lit_i(v: i128) -> Bound {
    Bound { macro_text: v.to_string(), neutral_text: v.to_string(), class: "lit".into(), intended: Num::I(v), literal: true }
}
pub fn lit_u(v: u128) -> Bound {
    Bound { macro_text: v.to_string(), neutral_text: v.to_string(), class: "lit".into(), intended: Num::U(v), literal: true }
}
pub fn lit_f(v: f64) -> Bound {
    let t = format!("{v:?}");
    Bound { macro_text: t.clone(), neutral_text: t, class: "lit".into(), intended: Num::F(v), literal: true }
}
pub fn spelled(class: &str, macro_text: &str, neutral_text: &str, intended: Num, literal: bool) -> Bound {
    Bound { macro_text: macro_text.into(), neutral_text: neutral_text.into(), class: class.into(), intended, literal }
}
pub fn expr_i(class: &str, text: &str, v: i128) -> Bound {
    spelled(class, text, text, Num::I(v), false)
}
pub fn expr_f(class: &str, text: &str, v: f64) -> Bound {
    spelled(class, text, text, Num::F(v), false)
}

/// Spellings the unchanged macro accepts and must enforce with the denoted value
/// (integer bound type `t`). KA=5, KB=100, ONE=1, k::KM=3, kmax()=42.
pub fn int_spellings(t: IntTy) -> Vec<Bound> {
    let n = t.name();
    let mut v = vec![
        spelled("lit-underscore", "1_0", "10", Num::I(10), true),
        expr_i("const", "KA", 5),
        expr_i("mod-const", "k::KM", 3),
        expr_i("paren", "(KA)", 5),
        expr_i("arith", "KA + 1", 6),
        expr_i("arith-paren", "(KA + 1) * 2", 12),
        expr_i("shift", "ONE << 4", 16),
        expr_i("bitor", "KA | 2", 7),
        expr_i("cast", &format!("KA as u8 as {n}"), 5),
        expr_i("type-max-arith", &format!("{n}::MAX - 3"), t.max_v().saturating_sub(3)),
        expr_i("block", "{ 5 }", 5),
        expr_i("if-expr", "if true { 5 } else { 6 }", 5),
        expr_i("const-fn-call", "kmax()", 42),
    ];
    if t.signed() {
        v.push(spelled("neg-lit", "-5", "-5", Num::I(-5), true));
        v.push(expr_i("paren-neg-const", "(-KA)", -5));
        v.push(expr_i("type-min-arith", &format!("{n}::MIN + 3"), t.min_v().saturating_add(3)));
    }
    // (appended, so that the rotation of bound kinds over the earlier spellings stays as it was)
    if t.signed() {
        v.push(expr_i("not-lit", "!7", -8));
        v.push(expr_i("not-zero", "!0", -1));
    }
    v
}

pub fn float_spellings(ty: &str) -> Vec<Bound> {
    vec![
        spelled("lit-int-for-float", "5", "5.0", Num::F(5.0), true),
        spelled("lit-exp", "1e3", "1e3", Num::F(1e3), true),
        spelled("lit-exp-neg", "-2.5e-3", "-2.5e-3", Num::F(-2.5e-3), true),
        spelled("lit-underscore", "1_000.5", "1000.5", Num::F(1000.5), true),
        spelled("lit-neg-zero", "-0.0", "-0.0", Num::F(-0.0), true),
        spelled("lit-rounding", "16777217", "16777217.0", Num::F(16777217.0), true),
        spelled("lit-subnormal", "1e-310", "1e-310", Num::F(1e-310), true),
        expr_f("const", "KA", 5.0),
        expr_f("paren-neg-const", "(-KA)", -5.0),
        expr_f("mod-const", "k::KM", 3.0),
        expr_f("arith", "KA * 2.0 + 0.5", 10.5),
        expr_f("type-const", &format!("{ty}::EPSILON"), f64::EPSILON),
        expr_f("type-max", &format!("{ty}::MAX"), f64::MAX),
        expr_f("type-inf", &format!("{ty}::INFINITY"), f64::INFINITY),
        expr_f("block", "{ 5.0 }", 5.0),
        expr_f("const-fn-call", "kmax()", 42.0),
    ]
}

// ---------------------------------------------------------------- derive sets

pub fn arbitrary_admissible(d: &Decl) -> bool {
    let has_with_san = d.sans.iter().any(|s| matches!(s, SanSpec::With(_)));
    match &d.vals {
        Vals::Custom(_) => false,
        Vals::None => true,
        Vals::Std(vs) => {
            if vs.iter().any(|v| matches!(v, ValSpec::Predicate(_) | ValSpec::Regex { .. })) {
                return false;
            }
            match d.inner {
                Inner::Int(_) => true,
                Inner::F32 | Inner::F64 | Inner::Str => !has_with_san,
                _ => false,
            }
        }
    }
}

/// Is the valid set certainly non-empty and free of the known generator defects?
/// Used only to decide whether the *full* derive set includes Arbitrary; dedicated
/// Arbitrary sections cover the hostile cases deliberately.
pub fn full_derives(d: &Decl) -> Vec<Tr> {
    let v = d.has_validation();
    let mut t = vec![Tr::Debug, Tr::Clone, Tr::PartialEq, Tr::PartialOrd, Tr::AsRef, Tr::Deref, Tr::Into, Tr::Borrow];
    let finite = d.std_vals().iter().any(|x| matches!(x, ValSpec::Finite));
    match d.inner {
        Inner::Int(_) => t.extend([Tr::Copy, Tr::Eq, Tr::Ord, Tr::Hash, Tr::Display, Tr::FromStr]),
        Inner::F32 | Inner::F64 => {
            t.extend([Tr::Copy, Tr::Display, Tr::FromStr]);
            if finite {
                t.extend([Tr::Eq, Tr::Ord]);
            }
        }
        Inner::Str => t.extend([Tr::Eq, Tr::Ord, Tr::Hash, Tr::Display, Tr::FromStr]),
        Inner::VecI32 => t.extend([Tr::Eq, Tr::Ord, Tr::Hash, Tr::IntoIterator]),
        Inner::Point => t.extend([Tr::Copy, Tr::Eq, Tr::Ord, Tr::Hash, Tr::Display, Tr::FromStr]),
        // no Eq / Ord / Hash / Display / FromStr on the inner type
        Inner::CowF32 => {}
        Inner::VecU8 => t.extend([Tr::Eq, Tr::Ord, Tr::Hash]),
    }
    if d.generic != Generic::None {
        // Copy needs T: Copy which the declaration does not state
        t.retain(|x| *x != Tr::Copy);
    }
    t.push(if v { Tr::TryFrom } else { Tr::From });
    match d.generic {
        // `impl<T> TryFrom<T> for W<T>` / `impl<T> From<W<T>> for T` are impossible in Rust (coherence)
        Generic::T => t.retain(|x| !matches!(x, Tr::TryFrom | Tr::From | Tr::Into)),
        Generic::VecT | Generic::None => {}
    }
    if d.default.is_some() {
        t.push(Tr::Default);
    }
    t.extend([Tr::Serialize, Tr::Deserialize]);
    // (Arbitrary on a lifetime-parameterised declaration does not compile: the impl ties the lifetime of the
    // inner `Cow<'a, _>` to the lifetime of the byte source; not part of the documented grammar, not claimed)
    if arbitrary_admissible(d) && d.generic == Generic::None && d.inner != Inner::CowF32 {
        t.push(Tr::Arbitrary);
    }
    t.sort();
    t
}

pub fn with_full(mut d: Decl) -> Decl {
    d.derives = full_derives(&d);
    d
}

/// the full derive set with `TryFrom` (error type `Infallible` when nothing is validated) in place of `From`
pub fn with_full_tryfrom(mut d: Decl) -> Decl {
    let mut t = full_derives(&d);
    for x in t.iter_mut() {
        if *x == Tr::From {
            *x = Tr::TryFrom;
        }
    }
    t.sort();
    t.dedup();
    d.derives = t;
    d
}

pub fn with_derives(mut d: Decl, t: &[Tr]) -> Decl {
    d.derives = t.to_vec();
    d
}

fn f(name: &str, form: FnForm) -> FnRef {
    FnRef::new(name, form)
}

fn int_pos(t: IntTy, which: usize) -> i128 {
    match which % 8 {
        0 => t.min_v(),
        1 => t.min_v() + 1,
        2 => {
            if t.signed() {
                -1
            } else {
                2
            }
        }
        3 => 0,
        4 => 1,
        5 => t.max_v() / 2,
        6 => t.max_v() - 1,
        _ => t.max_v(),
    }
}

fn b_int(t: IntTy, v: i128) -> Bound {
    if t == IntTy::U128 && v == i128::MAX {
        // u128::MAX does not fit i128; spell it as an expression the model gets from rustc
        return expr_i("type-max", "u128::MAX", i128::MAX);
    }
    lit_i(v)
}

// ---------------------------------------------------------------- catalogue

pub fn catalogue() -> Vec<Decl> {
    let mut out: Vec<Decl> = vec![];
    ints(&mut out);
    floats(&mut out);
    strings(&mut out);
    others(&mut out);
    infallible_try_from(&mut out);
    cows(&mut out);
    byte_vecs(&mut out);
    capture_and_names(&mut out);
    stateful_defaults(&mut out);
    dynamic_bounds(&mut out);
    out
}

fn std(d: Decl, vals: Vec<ValSpec>) -> Decl {
    let mut d = d;
    d.vals = Vals::Std(vals);
    d
}

fn ints(out: &mut Vec<Decl>) {
    // A. every bound-kind combination on every integer type, full derive set
    for (ti, t) in INT_TYS.iter().enumerate() {
        let inner = Inner::Int(*t);
        let lo = if t.signed() { -7 } else { 3 };
        let hi = 20;
        let combos: Vec<(&str, Vec<ValSpec>)> = vec![
            ("g", vec![ValSpec::Greater(b_int(*t, lo))]),
            ("ge", vec![ValSpec::GreaterEq(b_int(*t, lo))]),
            ("l", vec![ValSpec::Less(b_int(*t, hi))]),
            ("le", vec![ValSpec::LessEq(b_int(*t, hi))]),
            ("g+l", vec![ValSpec::Greater(b_int(*t, lo)), ValSpec::Less(b_int(*t, hi))]),
            ("le+g", vec![ValSpec::LessEq(b_int(*t, hi)), ValSpec::Greater(b_int(*t, lo))]),
            ("ge+l", vec![ValSpec::GreaterEq(b_int(*t, lo)), ValSpec::Less(b_int(*t, hi))]),
            ("ge+le", vec![ValSpec::GreaterEq(b_int(*t, lo)), ValSpec::LessEq(b_int(*t, hi))]),
            ("pred", vec![ValSpec::Predicate(f("p_even", FN_FORMS[ti % FN_FORMS.len()]))]),
        ];
        for (ci, (name, vals)) in combos.into_iter().enumerate() {
            let mut d = std(Decl::new(inner), vals).tag(&format!("int-combo:{name}"));
            // half of them carry a default
            if (ti + ci) % 2 == 0 {
                d.default = Some(DefaultSpec { macro_text: "10".into(), neutral_text: "10".into(), class: "valid".into() });
            }
            out.push(with_full(d));
        }
        // bounds at the extremes of the type: inclusive at MIN/MAX (everything valid), exclusive next to them
        let ext: Vec<(&str, Vec<ValSpec>)> = vec![
            ("ge-min", vec![ValSpec::GreaterEq(b_int(*t, t.min_v()))]),
            ("le-max", vec![ValSpec::LessEq(b_int(*t, t.max_v()))]),
            ("g-min", vec![ValSpec::Greater(b_int(*t, t.min_v()))]),
            ("l-max", vec![ValSpec::Less(b_int(*t, t.max_v()))]),
            ("g-max-1", vec![ValSpec::Greater(b_int(*t, t.max_v() - 1))]),
            ("l-min+1", vec![ValSpec::Less(b_int(*t, t.min_v() + 1))]),
            ("ge-max", vec![ValSpec::GreaterEq(b_int(*t, t.max_v()))]),
            ("le-min", vec![ValSpec::LessEq(b_int(*t, t.min_v()))]),
        ];
        for (name, vals) in ext {
            let d = std(Decl::new(inner), vals).tag(&format!("int-extreme:{name}"));
            out.push(with_derives(d, &[Tr::Debug, Tr::Clone, Tr::PartialEq, Tr::TryFrom, Tr::FromStr, Tr::Arbitrary]));
        }
        // the literal 0 as a bound, on every type (vacuous on unsigned types, the sign boundary on signed ones)
        let mut zero: Vec<(&str, Vec<ValSpec>)> = vec![
            ("ge0", vec![ValSpec::GreaterEq(b_int(*t, 0))]),
            ("g0", vec![ValSpec::Greater(b_int(*t, 0))]),
            ("le0", vec![ValSpec::LessEq(b_int(*t, 0))]),
            ("ge0+le100", vec![ValSpec::GreaterEq(b_int(*t, 0)), ValSpec::LessEq(b_int(*t, 100))]),
        ];
        if t.signed() {
            zero.push(("l0", vec![ValSpec::Less(b_int(*t, 0))]));
            zero.push(("g-1", vec![ValSpec::Greater(b_int(*t, -1))]));
        }
        for (name, vals) in zero {
            let d = std(Decl::new(inner), vals).tag(&format!("int-zero-bound:{name}"));
            out.push(with_derives(d, &[Tr::Debug, Tr::Clone, Tr::PartialEq, Tr::TryFrom, Tr::FromStr, Tr::Display, Tr::Serialize, Tr::Deserialize, Tr::Arbitrary]));
        }
        // no validation at all
        let d = Decl::new(inner).tag("int-novalidation");
        out.push(with_full(d));
    }

    // B. sanitizers × validators, rotating the syntactic form of custom functions
    let mut k = 0;
    for t in [IntTy::I32, IntTy::U8, IntTy::I64, IntTy::U16, IntTy::I8] {
        let inner = Inner::Int(t);
        let san_lists: Vec<Vec<&str>> =
            vec![vec!["s_clamp"], vec!["s_wadd1"], vec!["s_half"], vec!["s_even"]];
        for sl in &san_lists {
            for vi in 0..4 {
                let mut d = Decl::new(inner);
                d.sans = sl.iter().map(|n| { k += 1; SanSpec::With(f(n, FN_FORMS[k % FN_FORMS.len()])) }).collect();
                k += 1;
                let form = FN_FORMS[k % FN_FORMS.len()];
                d.vals = match vi {
                    0 => Vals::None,
                    1 => Vals::Std(vec![ValSpec::Less(b_int(t, 50)), ValSpec::Predicate(f("p_not7", form))]),
                    2 => Vals::Std(vec![ValSpec::Predicate(f("p_even", form)), ValSpec::GreaterEq(b_int(t, 3))]),
                    _ => Vals::Custom(f("v_small", FnForm::Path)),
                };
                d = d.tag("int-sanitize");
                out.push(with_full(d));
            }
        }
    }

    // C. bound spellings
    for t in [IntTy::I32, IntTy::U16, IntTy::I64, IntTy::U8, IntTy::I128, IntTy::Usize] {
        for (si, b) in int_spellings(t).into_iter().enumerate() {
            let class = b.class.clone();
            let vals = match si % 4 {
                0 => vec![ValSpec::Greater(b)],
                1 => vec![ValSpec::Less(b)],
                2 => vec![ValSpec::GreaterEq(b), ValSpec::LessEq(b_int(t, 120))],
                _ => vec![ValSpec::LessEq(b), ValSpec::GreaterEq(b_int(t, 1))],
            };
            let d = std(Decl::new(Inner::Int(t)), vals).tag(&format!("int-spelling:{class}"));
            out.push(with_derives(d, &[Tr::Debug, Tr::Clone, Tr::PartialEq, Tr::TryFrom, Tr::Display, Tr::FromStr, Tr::Arbitrary]));
        }
    }

    // C2. Arbitrary with exclusive bounds spelled as expressions whose top-level operator binds looser than
    // `+`/`-` (a generator stepping over the bound with `expr + 1` must group the expression first)
    for t in [IntTy::I32, IntTy::U8, IntTy::I16] {
        let n = t.name();
        let mut exprs: Vec<(&str, String, i128)> = vec![
            ("bitand", "KA & 7".into(), 5),
            ("bitand-high", "KB & 96".into(), 96),
            ("shr", "KB >> 1".into(), 50),
            ("shl", "ONE << 4".into(), 16),
            ("bitxor", "KA ^ 1".into(), 4),
            ("bitor", "KA | 2".into(), 7),
            ("cast", format!("KA as i64 as {n}"), 5),
            ("if-expr", "if KA > 3 { 9 } else { 1 }".into(), 9),
            ("sub", "KB - KA".into(), 95),
            ("rem", "KB % 7".into(), 2),
            ("div", "KB / 7".into(), 14),
            ("mul", "KA * 3".into(), 15),
        ];
        if t.signed() {
            exprs.push(("neg", "-KA".into(), -5));
            exprs.push(("not", "!KA".into(), -6));
        }
        for (class, text, v) in exprs {
            let b = || expr_i(class, &text, v);
            for (ki, vals) in [
                vec![ValSpec::Greater(b())],
                vec![ValSpec::Less(b())],
                vec![ValSpec::Greater(b()), ValSpec::LessEq(b_int(t, 120))],
                vec![ValSpec::GreaterEq(b_int(t, if t.signed() { -20 } else { 0 })), ValSpec::Less(b())],
            ]
            .into_iter()
            .enumerate()
            {
                let d = std(Decl::new(Inner::Int(t)), vals).tag(&format!("int-arb-precedence:{class}:{ki}"));
                out.push(with_derives(d, &[Tr::Debug, Tr::TryFrom, Tr::Arbitrary]));
            }
        }
    }

    // D. validator order permutations (C07)
    let t = IntTy::I32;
    let base: Vec<ValSpec> = vec![
        ValSpec::GreaterEq(b_int(t, 10)),
        ValSpec::LessEq(b_int(t, 20)),
        ValSpec::Predicate(f("p_even", FnForm::Path)),
    ];
    for p in permutations(3) {
        let vals: Vec<ValSpec> = p.iter().map(|i| base[*i].clone()).collect();
        let d = std(Decl::new(Inner::Int(t)), vals).tag("int-perm");
        out.push(with_derives(d, &[Tr::Debug, Tr::Clone, Tr::PartialEq, Tr::TryFrom, Tr::FromStr, Tr::Deserialize]));
    }
    // contradictory expression-valued bounds: both rules violated by many inputs
    for (i, vals) in [
        vec![ValSpec::Greater(expr_i("const", "KB", 100)), ValSpec::Less(expr_i("const", "KA", 5))],
        vec![ValSpec::Less(expr_i("const", "KA", 5)), ValSpec::Greater(expr_i("const", "KB", 100))],
        vec![ValSpec::LessEq(expr_i("const", "KA", 5)), ValSpec::GreaterEq(expr_i("const", "KB", 100)), ValSpec::Predicate(f("p_even", FnForm::Closure))],
    ]
    .into_iter()
    .enumerate()
    {
        let d = std(Decl::new(Inner::Int(IntTy::I16)), vals).tag(&format!("int-contradictory-expr:{i}"));
        out.push(with_derives(d, &[Tr::Debug, Tr::Clone, Tr::PartialEq, Tr::TryFrom]));
    }

    // E. const_fn twins
    for t in [IntTy::I32, IntTy::U8, IntTy::I64] {
        for which in 0..3 {
            let mut base = Decl::new(Inner::Int(t));
            match which {
                0 => {
                    base.vals = Vals::Std(vec![ValSpec::GreaterEq(b_int(t, 3)), ValSpec::Less(b_int(t, 90))]);
                }
                1 => {
                    base.sans = vec![SanSpec::With(f("s_clamp", FnForm::Path))];
                    base.vals = Vals::Std(vec![ValSpec::Predicate(f("p_even", FnForm::Path))]);
                }
                _ => {
                    base.sans = vec![SanSpec::With(f("s_wadd1", FnForm::Path))];
                }
            }
            base = with_derives(base, &[Tr::Debug, Tr::Clone, Tr::PartialEq]).tag("twin-base");
            let mut tw = base.clone();
            tw.const_fn = true;
            tw.tags = vec!["twin:const_fn".into()];
            tw.twin_kind = Some("const_fn".into());
            for s in tw.sans.iter_mut() {
                if let SanSpec::With(fr) = s {
                    fr.form = FnForm::ConstPath;
                }
            }
            if let Vals::Std(vs) = &mut tw.vals {
                for v in vs.iter_mut() {
                    if let ValSpec::Predicate(fr) = v {
                        fr.form = FnForm::ConstPath;
                    }
                }
            }
            tw.const_evals = vec!["0".into(), "3".into(), "4".into(), "89".into(), "90".into(), "200".into()];
            if !t.signed() {
                // keep literals in range for u8
            }
            out.push(base);
            tw.twin_of = Some("PREV".into());
            out.push(tw);
        }
    }

    // F. each trait alone (with its prerequisites)
    let singles: Vec<Vec<Tr>> = vec![
        vec![Tr::Debug],
        vec![Tr::Clone],
        vec![Tr::Clone, Tr::Copy],
        vec![Tr::PartialEq],
        vec![Tr::PartialEq, Tr::Eq],
        vec![Tr::PartialEq, Tr::PartialOrd],
        vec![Tr::PartialEq, Tr::Eq, Tr::PartialOrd, Tr::Ord],
        vec![Tr::FromStr],
        vec![Tr::AsRef],
        vec![Tr::Deref],
        vec![Tr::TryFrom],
        vec![Tr::Into],
        vec![Tr::Hash],
        vec![Tr::PartialEq, Tr::Eq, Tr::Hash, Tr::Borrow],
        vec![Tr::Borrow],
        vec![Tr::Display],
        vec![Tr::Default],
        vec![Tr::Serialize],
        vec![Tr::Deserialize],
        vec![Tr::Arbitrary],
    ];
    for (i, s) in singles.iter().enumerate() {
        let t = [IntTy::I32, IntTy::U64, IntTy::I8][i % 3];
        let mut d = std(Decl::new(Inner::Int(t)), vec![ValSpec::GreaterEq(b_int(t, 2)), ValSpec::LessEq(b_int(t, 60))]).tag("int-single-trait");
        if s.contains(&Tr::Default) {
            d.default = Some(DefaultSpec { macro_text: "7".into(), neutral_text: "7".into(), class: "valid".into() });
        }
        out.push(with_derives(d, s));
        // and without validation (From instead of TryFrom)
        if i % 3 == 0 {
            let mut d = Decl::new(Inner::Int(t)).tag("int-single-trait-noval");
            let mut s2: Vec<Tr> = s.iter().map(|x| if *x == Tr::TryFrom { Tr::From } else { *x }).collect();
            if s2.contains(&Tr::Default) {
                d.default = Some(DefaultSpec { macro_text: "7".into(), neutral_text: "7".into(), class: "valid".into() });
            }
            s2.push(Tr::From);
            s2.sort();
            s2.dedup();
            out.push(with_derives(d, &s2));
        }
    }

    // G. defaults: valid / invalid / needing sanitisation / expression
    for (class, mt, nt, sans) in [
        ("valid", "10", "10", vec![]),
        ("invalid", "1000", "1000", vec![]),
        ("needs-sanitising", "1000", "1000", vec!["s_clamp"]),
        ("sanitised-into-invalid", "49", "49", vec!["s_wadd1"]),
        ("expr", "KA + 2", "KA + 2", vec![]),
    ] {
        for t in [IntTy::I32, IntTy::U16] {
            let mut d = std(Decl::new(Inner::Int(t)), vec![ValSpec::Less(b_int(t, 50))]).tag(&format!("int-default:{class}"));
            d.sans = sans.iter().map(|n| SanSpec::With(f(n, FnForm::Closure))).collect();
            d.default = Some(DefaultSpec { macro_text: mt.into(), neutral_text: nt.into(), class: class.into() });
            out.push(with_derives(d, &[Tr::Debug, Tr::Clone, Tr::PartialEq, Tr::Default, Tr::TryFrom]));
        }
    }

    // G2. defaults exactly at, and next to, each kind of bound (exclusive bound == default must panic)
    for t in [IntTy::I32, IntTy::U16, IntTy::I128] {
        let n = t.name();
        let cases: Vec<(&str, Vec<ValSpec>, String)> = vec![
            ("greater-at", vec![ValSpec::Greater(b_int(t, 0))], "0".into()),
            ("greater-above", vec![ValSpec::Greater(b_int(t, 0))], "1".into()),
            ("ge-at", vec![ValSpec::GreaterEq(b_int(t, 3))], "3".into()),
            ("ge-below", vec![ValSpec::GreaterEq(b_int(t, 3))], "2".into()),
            ("less-at", vec![ValSpec::Less(b_int(t, 50))], "50".into()),
            ("less-below", vec![ValSpec::Less(b_int(t, 50))], "49".into()),
            ("le-at", vec![ValSpec::LessEq(b_int(t, 50))], "50".into()),
            ("le-above", vec![ValSpec::LessEq(b_int(t, 50))], "51".into()),
            ("less-max-at", vec![ValSpec::Less(expr_i("type-max", &format!("{n}::MAX"), t.max_v()))], format!("{n}::MAX")),
            ("greater-const-at", vec![ValSpec::Greater(expr_i("const", "KA", 5)), ValSpec::LessEq(b_int(t, 90))], "KA".into()),
            ("both-at-upper", vec![ValSpec::GreaterEq(b_int(t, 1)), ValSpec::Less(b_int(t, 9))], "9".into()),
        ];
        for (name, vals, def) in cases {
            let mut d = std(Decl::new(Inner::Int(t)), vals).tag(&format!("int-default-at-bound:{name}"));
            d.default = Some(DefaultSpec { macro_text: def.clone(), neutral_text: def, class: name.into() });
            out.push(with_derives(d, &[Tr::Debug, Tr::Clone, Tr::PartialEq, Tr::Default, Tr::TryFrom]));
        }
    }

    // H. narrow ranges for the surjectivity check (C14), literal and expression bounds
    for t in INT_TYS {
        let base = if t.signed() { -3i128 } else { 4 };
        for (si, span) in [1i128, 2, 255, 256, 257, 65535, 65536].into_iter().enumerate() {
            let width = t.max_v().saturating_sub(t.min_v());
            if span - 1 > width {
                continue;
            }
            let mut lo = base;
            if lo.saturating_add(span - 1) > t.max_v() {
                lo = t.max_v() - (span - 1);
            }
            let hi = lo + span - 1;
            let vals = match si % 4 {
                0 => vec![ValSpec::GreaterEq(b_int(t, lo)), ValSpec::LessEq(b_int(t, hi))],
                1 if lo > t.min_v() && hi < t.max_v() => vec![ValSpec::Greater(b_int(t, lo - 1)), ValSpec::Less(b_int(t, hi + 1))],
                2 if hi < t.max_v() => vec![ValSpec::GreaterEq(b_int(t, lo)), ValSpec::Less(b_int(t, hi + 1))],
                3 if lo > t.min_v() => vec![ValSpec::LessEq(b_int(t, hi)), ValSpec::Greater(b_int(t, lo - 1))],
                _ => vec![ValSpec::GreaterEq(b_int(t, lo)), ValSpec::LessEq(b_int(t, hi))],
            };
            let d = std(Decl::new(Inner::Int(t)), vals).tag(&format!("int-narrow:{span}"));
            out.push(with_derives(d, &[Tr::Debug, Tr::Arbitrary]));
        }
        // ranges touching MIN / MAX
        let d = std(Decl::new(Inner::Int(t)), vec![ValSpec::Less(b_int(t, t.min_v() + 200))]).tag("int-narrow:at-min");
        out.push(with_derives(d, &[Tr::Debug, Tr::Arbitrary]));
        let d = std(Decl::new(Inner::Int(t)), vec![ValSpec::Greater(b_int(t, t.max_v() - 200))]).tag("int-narrow:at-max");
        out.push(with_derives(d, &[Tr::Debug, Tr::Arbitrary]));
        let n = t.name();
        let d = std(
            Decl::new(Inner::Int(t)),
            vec![ValSpec::GreaterEq(expr_i("type-max-arith", &format!("{n}::MAX - 99"), t.max_v() - 99))],
        )
        .tag("int-narrow:expr-at-max");
        out.push(with_derives(d, &[Tr::Debug, Tr::Arbitrary]));
    }
    // expression bounds whose text has an operator of lower precedence than the spliced `± 1`
    for t in [IntTy::U8, IntTy::I32, IntTy::U64] {
        let specs: Vec<(&str, Vec<ValSpec>)> = vec![
            ("less-shift", vec![ValSpec::Less(expr_i("shift", "ONE << 4", 16))]),
            ("greater-shift", vec![ValSpec::Greater(expr_i("shift", "ONE << 2", 4)), ValSpec::LessEq(lit_i(100))]),
            ("less-bitor", vec![ValSpec::Less(expr_i("bitor", "KA | 8", 13))]),
            ("less-arith", vec![ValSpec::Less(expr_i("arith", "KA + 20", 25))]),
            ("less-const", vec![ValSpec::Less(expr_i("const", "KB", 100))]),
            ("greater-const-le-const", vec![ValSpec::Greater(expr_i("const", "KA", 5)), ValSpec::LessEq(expr_i("const", "KB", 100))]),
            ("less-cast", vec![ValSpec::Less(expr_i("cast", &format!("(40u8) as {}", t.name()), 40))]),
            ("less-if", vec![ValSpec::Less(expr_i("if-expr", "if true { 9 } else { 3 }", 9))]),
        ];
        for (name, vals) in specs {
            let d = std(Decl::new(Inner::Int(t)), vals).tag(&format!("int-narrow-expr:{name}"));
            out.push(with_derives(d, &[Tr::Debug, Tr::Arbitrary]));
        }
    }
    // Arbitrary with sanitizers (accepted for integers)
    for (name, san) in [("idem", "s_clamp"), ("nonidem", "s_wadd1"), ("even", "s_even")] {
        let mut d = std(Decl::new(Inner::Int(IntTy::I32)), vec![ValSpec::GreaterEq(lit_i(0)), ValSpec::LessEq(lit_i(50))]).tag(&format!("int-arb-sanitized:{name}"));
        d.sans = vec![SanSpec::With(f(san, FnForm::Closure))];
        out.push(with_derives(d, &[Tr::Debug, Tr::Arbitrary]));
    }
}

fn floats(out: &mut Vec<Decl>) {
    for (ti, inner) in [Inner::F32, Inner::F64].into_iter().enumerate() {
        let ty = inner.ty();
        // A. bound-kind combinations, with and without finite
        let lo = -2.5;
        let hi = 100.0;
        let combos: Vec<(&str, Vec<ValSpec>)> = vec![
            ("g", vec![ValSpec::Greater(lit_f(lo))]),
            ("ge", vec![ValSpec::GreaterEq(lit_f(lo))]),
            ("l", vec![ValSpec::Less(lit_f(hi))]),
            ("le", vec![ValSpec::LessEq(lit_f(hi))]),
            ("g+l", vec![ValSpec::Greater(lit_f(lo)), ValSpec::Less(lit_f(hi))]),
            ("le+g", vec![ValSpec::LessEq(lit_f(hi)), ValSpec::Greater(lit_f(lo))]),
            ("ge+l", vec![ValSpec::GreaterEq(lit_f(lo)), ValSpec::Less(lit_f(hi))]),
            ("ge+le", vec![ValSpec::GreaterEq(lit_f(lo)), ValSpec::LessEq(lit_f(hi))]),
            ("finite", vec![ValSpec::Finite]),
            ("finite+ge+le", vec![ValSpec::Finite, ValSpec::GreaterEq(lit_f(lo)), ValSpec::LessEq(lit_f(hi))]),
            ("g+finite", vec![ValSpec::Greater(lit_f(0.0)), ValSpec::Finite]),
            ("le+finite", vec![ValSpec::LessEq(lit_f(-0.0)), ValSpec::Finite]),
            ("pred", vec![ValSpec::Predicate(f("p_not50", FN_FORMS[ti]))]),
            ("finite+pred", vec![ValSpec::Finite, ValSpec::Predicate(f("p_integral", FN_FORMS[ti + 2]))]),
            ("ge-zero", vec![ValSpec::GreaterEq(lit_f(0.0))]),
            ("g-negzero", vec![ValSpec::Greater(lit_f(-0.0))]),
        ];
        for (ci, (name, vals)) in combos.into_iter().enumerate() {
            let mut d = std(Decl::new(inner), vals).tag(&format!("float-combo:{name}"));
            if ci % 2 == 0 {
                d.default = Some(DefaultSpec { macro_text: "10.5".into(), neutral_text: "10.5".into(), class: "valid".into() });
            }
            out.push(with_full(d));
        }
        out.push(with_full(Decl::new(inner).tag("float-novalidation")));

        // B. sanitizers
        let mut k = ti;
        // (s_recip, s_quad, s_big2inf turn finite inputs into non-finite stored values: `finite` speaks about the latter)
        for sl in [vec!["s_clamp"], vec!["s_nan0"], vec!["s_neg"], vec!["s_add1"], vec!["s_abs"], vec!["s_recip"], vec!["s_quad"], vec!["s_big2inf"]] {
            for vi in 0..3 {
                let mut d = Decl::new(inner);
                d.sans = sl.iter().map(|n| { k += 1; SanSpec::With(f(n, FN_FORMS[k % FN_FORMS.len()])) }).collect();
                k += 1;
                let form = FN_FORMS[k % FN_FORMS.len()];
                d.vals = match vi {
                    0 => Vals::None,
                    1 => Vals::Std(vec![ValSpec::Finite, ValSpec::LessEq(lit_f(50.0)), ValSpec::Predicate(f("p_not50", form))]),
                    _ => Vals::Custom(f("v_small", FnForm::Path)),
                };
                out.push(with_full(d.tag("float-sanitize")));
            }
        }

        // C. spellings
        for (si, b) in float_spellings(ty).into_iter().enumerate() {
            if inner == Inner::F32 && b.class == "lit-subnormal" {
                continue; // 1e-310 is zero as f32; covered for f64
            }
            let class = b.class.clone();
            let inf = matches!(b.intended, Num::F(x) if x.is_infinite() || x == f64::MAX);
            let vals = match si % 4 {
                _ if inf => vec![ValSpec::Less(b)],
                0 => vec![ValSpec::Greater(b)],
                1 => vec![ValSpec::Less(b)],
                2 => vec![ValSpec::GreaterEq(b), ValSpec::LessEq(lit_f(1e30))],
                _ => vec![ValSpec::LessEq(b), ValSpec::GreaterEq(lit_f(-1e30))],
            };
            let d = std(Decl::new(inner), vals).tag(&format!("float-spelling:{class}"));
            out.push(with_derives(d, &[Tr::Debug, Tr::Clone, Tr::PartialEq, Tr::TryFrom, Tr::Display, Tr::FromStr]));
        }

        // C2. many-digit literal bounds a hair beside an f32 rounding midpoint, in every bound kind
        for (li, (text, approx)) in [("16777217.0000000001", 16777218.0), ("1.00000005960464477", 1.0), ("-1.0000001788139343261718751", -1.0000002), ("0.1000000014901161193847656250000001", 0.1)].into_iter().enumerate() {
            for k in 0..4 {
                let b = spelled("lit-midpoint", text, text, Num::F(approx), true);
                let v = match k {
                    0 => ValSpec::Greater(b),
                    1 => ValSpec::GreaterEq(b),
                    2 => ValSpec::Less(b),
                    _ => ValSpec::LessEq(b),
                };
                let d = std(Decl::new(inner), vec![v]).tag(&format!("float-midpoint-literal:{li}:{k}"));
                out.push(with_derives(d, &[Tr::Debug, Tr::Clone, Tr::PartialEq, Tr::TryFrom, Tr::FromStr, Tr::Deserialize]));
            }
        }

        // D. validator permutations
        let base: Vec<ValSpec> =
            vec![ValSpec::Finite, ValSpec::GreaterEq(lit_f(0.0)), ValSpec::Less(lit_f(10.0)), ValSpec::Predicate(f("p_integral", FnForm::Path))];
        let perms = permutations(4);
        let take: Vec<&Vec<usize>> = if inner == Inner::F64 { perms.iter().collect() } else { perms.iter().step_by(4).collect() };
        for p in take {
            let vals: Vec<ValSpec> = p.iter().map(|i| base[*i].clone()).collect();
            let d = std(Decl::new(inner), vals).tag("float-perm");
            out.push(with_derives(d, &[Tr::Debug, Tr::Clone, Tr::PartialEq, Tr::TryFrom, Tr::FromStr]));
        }
        let d = std(
            Decl::new(inner),
            vec![ValSpec::Greater(expr_f("const", "KB", 100.0)), ValSpec::Less(expr_f("const", "KA", 5.0)), ValSpec::Finite],
        )
        .tag("float-contradictory-expr");
        out.push(with_derives(d, &[Tr::Debug, Tr::Clone, Tr::PartialEq, Tr::TryFrom]));

        // E. const_fn twins
        for which in 0..2 {
            let mut base = Decl::new(inner);
            if which == 0 {
                base.vals = Vals::Std(vec![ValSpec::GreaterEq(lit_f(-1.0)), ValSpec::Less(lit_f(1.0))]);
            } else {
                base.sans = vec![SanSpec::With(f("s_clamp", FnForm::Path))];
                base.vals = Vals::Std(vec![ValSpec::Predicate(f("p_not50", FnForm::Path)), ValSpec::LessEq(lit_f(99.0))]);
            }
            base = with_derives(base, &[Tr::Debug, Tr::Clone, Tr::PartialEq]).tag("twin-base");
            let mut tw = base.clone();
            tw.const_fn = true;
            tw.tags = vec!["twin:const_fn".into()];
            tw.twin_kind = Some("const_fn".into());
            for s in tw.sans.iter_mut() {
                if let SanSpec::With(fr) = s {
                    fr.form = FnForm::ConstPath;
                }
            }
            if let Vals::Std(vs) = &mut tw.vals {
                for v in vs.iter_mut() {
                    if let ValSpec::Predicate(fr) = v {
                        fr.form = FnForm::ConstPath;
                    }
                }
            }
            tw.const_evals = vec!["-1.0".into(), "-1.5".into(), "0.999".into(), "1.0".into(), "50.0".into(), "-0.0".into()];
            out.push(base);
            tw.twin_of = Some("PREV".into());
            out.push(tw);
        }

        // E2. const_fn twins with `finite` (every position), deriving Eq/Ord and every entry point
        for vals in [
            vec![ValSpec::Finite],
            vec![ValSpec::Finite, ValSpec::GreaterEq(lit_f(-10.0)), ValSpec::LessEq(lit_f(10.0))],
            vec![ValSpec::GreaterEq(lit_f(-10.0)), ValSpec::LessEq(lit_f(10.0)), ValSpec::Finite],
            vec![ValSpec::Less(lit_f(1e30)), ValSpec::Finite, ValSpec::Predicate(f("p_not50", FnForm::Path))],
        ] {
            let mut base = std(Decl::new(inner), vals).tag("twin-base");
            base.default = Some(DefaultSpec { macro_text: "1.5".into(), neutral_text: "1.5".into(), class: "valid".into() });
            let base = with_full(base);
            let mut tw = base.clone();
            tw.const_fn = true;
            tw.tags = vec!["twin:const_fn".into()];
            tw.twin_kind = Some("const_fn".into());
            if let Vals::Std(vs) = &mut tw.vals {
                for v in vs.iter_mut() {
                    if let ValSpec::Predicate(fr) = v {
                        fr.form = FnForm::ConstPath;
                    }
                }
            }
            tw.const_evals = vec![format!("{ty}::NAN"), format!("{ty}::INFINITY"), "0.0".into(), "-0.0".into(), "50.0".into()];
            tw.twin_of = Some("PREV".into());
            out.push(base);
            out.push(tw);
        }

        // E3. `finite` with extreme bounds (the Arbitrary scaling arithmetic overflows there), deriving
        //     Eq/Ord and every entry point: no entry point may hand out a non-finite value
        for (name, vals) in [
            ("full-span", vec![ValSpec::Finite, ValSpec::GreaterEq(expr_f("type-min", &format!("{ty}::MIN"), f64::MIN)), ValSpec::LessEq(expr_f("type-max", &format!("{ty}::MAX"), f64::MAX))]),
            ("huge-lower", vec![ValSpec::GreaterEq(lit_f(if inner == Inner::F32 { 1e38 } else { 1e308 })), ValSpec::Finite]),
            ("huge-upper", vec![ValSpec::Finite, ValSpec::LessEq(lit_f(if inner == Inner::F32 { -1e38 } else { -1e308 }))]),
            ("wide-two-sided", vec![ValSpec::Greater(lit_f(if inner == Inner::F32 { -3e38 } else { -1.5e308 })), ValSpec::Less(lit_f(if inner == Inner::F32 { 3e38 } else { 1.5e308 })), ValSpec::Finite]),
            // inclusive bounds that are themselves infinite (constants evaluating to +/-inf): `finite` is not implied by them
            ("inf-upper-finite-last", vec![ValSpec::GreaterEq(lit_f(0.0)), ValSpec::LessEq(expr_f("type-inf", &format!("{ty}::INFINITY"), f64::INFINITY)), ValSpec::Finite]),
            ("inf-upper-finite-first", vec![ValSpec::Finite, ValSpec::GreaterEq(lit_f(0.0)), ValSpec::LessEq(expr_f("type-inf", &format!("{ty}::INFINITY"), f64::INFINITY))]),
            ("neg-inf-lower-finite-last", vec![ValSpec::GreaterEq(expr_f("type-neg-inf", &format!("{ty}::NEG_INFINITY"), f64::NEG_INFINITY)), ValSpec::LessEq(lit_f(0.0)), ValSpec::Finite]),
            ("both-inf-finite-middle", vec![ValSpec::GreaterEq(expr_f("type-neg-inf", &format!("{ty}::NEG_INFINITY"), f64::NEG_INFINITY)), ValSpec::Finite, ValSpec::LessEq(expr_f("type-inf", &format!("{ty}::INFINITY"), f64::INFINITY))]),
        ] {
            let d = std(Decl::new(inner), vals).tag(&format!("float-finite-extreme:{name}"));
            out.push(with_derives(d, &[Tr::Debug, Tr::Clone, Tr::Copy, Tr::PartialEq, Tr::Eq, Tr::PartialOrd, Tr::Ord, Tr::TryFrom, Tr::FromStr, Tr::Deserialize, Tr::Arbitrary]));
        }

        // F. single traits
        let singles: Vec<Vec<Tr>> = vec![
            vec![Tr::Debug],
            vec![Tr::Clone, Tr::Copy],
            vec![Tr::PartialEq],
            vec![Tr::PartialEq, Tr::Eq],
            vec![Tr::PartialEq, Tr::PartialOrd],
            vec![Tr::PartialEq, Tr::Eq, Tr::PartialOrd, Tr::Ord],
            vec![Tr::FromStr],
            vec![Tr::AsRef],
            vec![Tr::Deref],
            vec![Tr::TryFrom],
            vec![Tr::Into],
            vec![Tr::Borrow],
            vec![Tr::Display],
            vec![Tr::Default],
            vec![Tr::Serialize],
            vec![Tr::Deserialize],
            vec![Tr::Arbitrary],
        ];
        for s in singles.iter() {
            let mut d = std(Decl::new(inner), vec![ValSpec::Finite, ValSpec::GreaterEq(lit_f(-4.0)), ValSpec::LessEq(lit_f(60.0))]).tag("float-single-trait");
            if s.contains(&Tr::Default) {
                d.default = Some(DefaultSpec { macro_text: "7.25".into(), neutral_text: "7.25".into(), class: "valid".into() });
            }
            out.push(with_derives(d, s));
        }

        // G. defaults
        for (class, mt) in [("valid", "10.0"), ("invalid", "1000.0"), ("nan", &format!("{ty}::NAN") as &str), ("neg-zero", "-0.0")] {
            let mut d = std(Decl::new(inner), vec![ValSpec::Finite, ValSpec::Less(lit_f(50.0))]).tag(&format!("float-default:{class}"));
            d.default = Some(DefaultSpec { macro_text: mt.into(), neutral_text: mt.into(), class: class.into() });
            out.push(with_derives(d, &[Tr::Debug, Tr::Clone, Tr::PartialEq, Tr::Default, Tr::TryFrom]));
        }

        // G2. defaults exactly at each kind of bound, signed zeros included
        for (name, vals, def) in [
            ("greater-zero-at-negzero", vec![ValSpec::Greater(lit_f(0.0))], "-0.0"),
            ("greater-zero-at-zero", vec![ValSpec::Greater(lit_f(0.0))], "0.0"),
            ("ge-zero-at-negzero", vec![ValSpec::GreaterEq(lit_f(0.0))], "-0.0"),
            ("less-at", vec![ValSpec::Less(lit_f(50.0))], "50.0"),
            ("le-at", vec![ValSpec::LessEq(lit_f(50.0))], "50.0"),
            ("less-at-with-lower", vec![ValSpec::GreaterEq(lit_f(1.0)), ValSpec::Less(lit_f(9.5))], "9.5"),
            ("greater-const-at", vec![ValSpec::Greater(expr_f("const", "KA", 5.0))], "KA"),
            ("less-just-below", vec![ValSpec::Less(lit_f(50.0))], "49.999999999999"),
        ] {
            let mut d = std(Decl::new(inner), vals).tag(&format!("float-default-at-bound:{name}"));
            d.default = Some(DefaultSpec { macro_text: def.into(), neutral_text: def.into(), class: name.into() });
            out.push(with_derives(d, &[Tr::Debug, Tr::Clone, Tr::PartialEq, Tr::Default, Tr::TryFrom]));
        }

        // H. Arbitrary: every bound-kind combination × magnitude × finite
        let mags: Vec<(&str, f64, f64)> = vec![("unit", 0.0, 1.0), ("mixed", -1.0, 1.0), ("small", 1e-3, 2e-3), ("mid", 3.0, 17.0), ("large", 100.0, 1000.0), ("huge", -1e30, 1e30), ("neg", -1000.0, -100.0)];
        for (mi, (mag, lo, hi)) in mags.iter().enumerate() {
            let combos: Vec<(&str, Vec<ValSpec>)> = vec![
                ("g", vec![ValSpec::Greater(lit_f(*lo))]),
                ("ge", vec![ValSpec::GreaterEq(lit_f(*lo))]),
                ("l", vec![ValSpec::Less(lit_f(*hi))]),
                ("le", vec![ValSpec::LessEq(lit_f(*hi))]),
                ("g+l", vec![ValSpec::Greater(lit_f(*lo)), ValSpec::Less(lit_f(*hi))]),
                ("g+le", vec![ValSpec::Greater(lit_f(*lo)), ValSpec::LessEq(lit_f(*hi))]),
                ("ge+l", vec![ValSpec::GreaterEq(lit_f(*lo)), ValSpec::Less(lit_f(*hi))]),
                ("ge+le", vec![ValSpec::GreaterEq(lit_f(*lo)), ValSpec::LessEq(lit_f(*hi))]),
            ];
            for (ci, (name, mut vals)) in combos.into_iter().enumerate() {
                let fin = (mi + ci) % 2 == 0;
                if fin {
                    vals.insert(ci % (vals.len() + 1), ValSpec::Finite);
                }
                let d = std(Decl::new(inner), vals).tag(&format!("float-arb:{mag}:{name}{}", if fin { ":finite" } else { "" }));
                out.push(with_derives(d, &[Tr::Debug, Tr::Arbitrary]));
            }
        }
        // bounds spelled as expressions with a top-level operator, in every position the generator re-uses them
        // (`upper - lower`, `|basic| + lower`, `next_up(bound)`)
        {
            let exprs: Vec<(&str, String, f64)> = vec![
                ("sub", "KB - 90.0".into(), 10.0),
                ("add", "KA + 1.5".into(), 6.5),
                ("neg", "-KA".into(), -5.0),
                ("mul", "KA * 2.0".into(), 10.0),
                ("div", "KB / 8.0".into(), 12.5),
                ("if-expr", "if KA > 3.0 { 9.0 } else { 1.0 }".into(), 9.0),
                ("cast", format!("KA as f64 as {ty}"), 5.0),
            ];
            for (ei, (class, text, v)) in exprs.iter().enumerate() {
                let b = || expr_f(class, text, *v);
                for (ki, mut vals) in [
                    vec![ValSpec::Greater(b())],
                    vec![ValSpec::Less(b())],
                    vec![ValSpec::Greater(b()), ValSpec::LessEq(lit_f(50.0))],
                    vec![ValSpec::GreaterEq(lit_f(-20.0)), ValSpec::Less(b())],
                    vec![ValSpec::LessEq(b()), ValSpec::GreaterEq(expr_f("neg", "-KB", -100.0))],
                ]
                .into_iter()
                .enumerate()
                {
                    if (ei + ki) % 2 == 0 {
                        vals.insert(ki % (vals.len() + 1), ValSpec::Finite);
                    }
                    let d = std(Decl::new(inner), vals).tag(&format!("float-arb-precedence:{class}:{ki}"));
                    out.push(with_derives(d, &[Tr::Debug, Tr::TryFrom, Tr::Arbitrary]));
                }
            }
        }
        // narrow and degenerate two-sided ranges at values that are not dyadic rationals: any rounding in
        // the generator's interpolation lands outside
        for (mi, (mag, lo, hi)) in [("pinned", 0.1, 0.1), ("pinned-neg", -36.6, -36.6), ("narrow", 0.7, 0.70001), ("narrow-neg", -0.30001, -0.3), ("narrow-large", 16777216.0, 16777220.0), ("ulp", 1.0, 1.0000001)]
            .into_iter()
            .enumerate()
        {
            let combos: Vec<(&str, Vec<ValSpec>)> = vec![
                ("ge+le", vec![ValSpec::GreaterEq(lit_f(lo)), ValSpec::LessEq(lit_f(hi))]),
                ("le+ge", vec![ValSpec::LessEq(lit_f(hi)), ValSpec::GreaterEq(lit_f(lo))]),
                ("g+le", vec![ValSpec::Greater(lit_f(lo)), ValSpec::LessEq(lit_f(hi))]),
                ("ge+l", vec![ValSpec::GreaterEq(lit_f(lo)), ValSpec::Less(lit_f(hi))]),
                ("g+l", vec![ValSpec::Greater(lit_f(lo)), ValSpec::Less(lit_f(hi))]),
            ];
            for (ci, (name, mut vals)) in combos.into_iter().enumerate() {
                // equal literal bounds admit a value only when both are inclusive
                if lo == hi && ci >= 2 {
                    continue;
                }
                let fin = (mi + ci) % 2 == 1;
                if fin {
                    vals.push(ValSpec::Finite);
                }
                let d = std(Decl::new(inner), vals).tag(&format!("float-arb:{mag}:{name}{}", if fin { ":finite" } else { "" }));
                out.push(with_derives(d, &[Tr::Debug, Tr::Arbitrary]));
            }
        }
        for (name, vals) in [
            ("finite-only", vec![ValSpec::Finite]),
            ("expr-bounds", vec![ValSpec::GreaterEq(expr_f("const", "KA", 5.0)), ValSpec::Less(expr_f("const", "KB", 100.0))]),
            ("ge-max", vec![ValSpec::GreaterEq(expr_f("type-max", &format!("{ty}::MAX"), f64::MAX)), ValSpec::Finite]),
            ("le-min", vec![ValSpec::LessEq(expr_f("type-min", &format!("{ty}::MIN"), f64::MIN))]),
        ] {
            let d = std(Decl::new(inner), vals).tag(&format!("float-arb:{name}"));
            out.push(with_derives(d, &[Tr::Debug, Tr::Arbitrary]));
        }
        out.push(with_derives(Decl::new(inner).tag("float-arb:novalidation"), &[Tr::Debug, Tr::Arbitrary]));
        let mut d = Decl::new(inner).tag("float-arb:novalidation-sanitized");
        d.sans = vec![SanSpec::With(f("s_nan0", FnForm::Closure))];
        out.push(with_derives(d, &[Tr::Debug, Tr::Arbitrary]));
    }
}

fn strings(out: &mut Vec<Decl>) {
    let inner = Inner::Str;
    // sanitizer lists: every order of built-ins, custom functions in every position
    let san_lists: Vec<Vec<SanSpec>> = {
        use SanSpec::*;
        let w = |n: &str, i: usize| With(f(n, FN_FORMS[i % FN_FORMS.len()]));
        vec![
            vec![],
            vec![Trim],
            vec![Lower],
            vec![Upper],
            vec![Trim, Lower],
            vec![Lower, Trim],
            vec![Trim, Upper],
            vec![Upper, Trim],
            vec![w("s_trunc5", 0)],
            vec![w("s_appendx", 1)],
            vec![Trim, w("s_padsp", 2)],
            vec![w("s_padsp", 3), Trim],
            vec![Lower, w("s_prepz", 4)],
            vec![w("s_prepz", 5), Lower],
            vec![Trim, Lower, w("s_trunc5", 6)],
            vec![w("s_trunc5", 7), Upper],
            vec![Upper, w("s_trunc5", 8)],
            vec![w("s_repl", 9), Trim, Upper],
            vec![Trim, w("s_appendx", 11), Lower],
            // whitespace-sensitive custom functions BEFORE trim (pre-trimming the input is then unsound)
            vec![w("s_trunc5", 12), Trim],
            vec![w("s_appendx", 13), Trim],
            vec![w("s_prepz", 14), Trim, Lower],
            vec![Upper, w("s_appendx", 15), Trim],
            vec![w("s_trunc5", 16), Lower, Trim],
            // idempotent functions BETWEEN two built-ins whose output the later built-in has to clean up
            vec![Lower, w("s_at2sp", 17), Trim],
            vec![Upper, w("s_at2sp", 18), Trim],
            vec![Trim, w("s_bang2z", 19), Lower],
            vec![Trim, w("s_at2sp", 20), Upper],
            vec![w("s_at2sp", 21), Trim],
            vec![w("s_bang2z", 22), Lower],
            vec![Lower, w("s_bang2z", 23)],
        ]
    };
    let val_sets: Vec<(&str, Vals)> = {
        use ValSpec::*;
        vec![
            ("none", Vals::None),
            ("min", Vals::Std(vec![LenCharMin(lit_u(3))])),
            ("max", Vals::Std(vec![LenCharMax(lit_u(5))])),
            ("not_empty", Vals::Std(vec![NotEmpty])),
            ("min+max", Vals::Std(vec![LenCharMin(lit_u(2)), LenCharMax(lit_u(6))])),
            ("max+not_empty+min", Vals::Std(vec![LenCharMax(lit_u(8)), NotEmpty, LenCharMin(lit_u(2))])),
            ("pred", Vals::Std(vec![Predicate(f("p_has_at", FnForm::ClosureTyped))])),
            ("regex-lit", Vals::Std(vec![Regex { pattern: "^[a-zß@ ]{2,6}$".into(), form: RegexForm::Literal }])),
            ("custom", Vals::Custom(f("v_nobang", FnForm::Path))),
            ("min=max", Vals::Std(vec![LenCharMin(lit_u(4)), LenCharMax(lit_u(4))])),
            ("max0", Vals::Std(vec![LenCharMax(lit_u(0))])),
            ("expr-bounds", Vals::Std(vec![LenCharMin(spelled("const", "k::KM", "k::KM", Num::U(3), false)), LenCharMax(spelled("arith", "KA + 1", "KA + 1", Num::U(6), false))])),
        ]
    };
    // covering design: each sanitizer list with a rotating selection of validator sets
    for (si, sl) in san_lists.iter().enumerate() {
        for r in 0..4 {
            let (vn, vals) = &val_sets[(si * 5 + r * 3) % val_sets.len()];
            let mut d = Decl::new(inner).tag(&format!("str-san{si}-val:{vn}"));
            d.sans = sl.clone();
            d.vals = vals.clone();
            if (si + r) % 3 == 0 {
                d.default = Some(DefaultSpec { macro_text: "\" ab@C \"".into(), neutral_text: "\" ab@C \"".into(), class: "maybe".into() });
            }
            out.push(with_full(d));
        }
    }
    // every validator set at least once without sanitizers and with trim+lowercase
    for (vn, vals) in &val_sets {
        for sl in [vec![], vec![SanSpec::Trim, SanSpec::Lower]] {
            let mut d = Decl::new(inner).tag(&format!("str-val:{vn}"));
            d.sans = sl;
            d.vals = vals.clone();
            out.push(with_derives(d, &[Tr::Debug, Tr::Clone, Tr::PartialEq, Tr::TryFrom, Tr::FromStr, Tr::Display]));
        }
    }
    // regex forms
    for (i, form) in [RegexForm::Literal, RegexForm::LazyLock, RegexForm::LazyStatic, RegexForm::OnceCell].into_iter().enumerate() {
        let mut d = Decl::new(inner).tag(&format!("str-regex:{form:?}"));
        d.sans = if i % 2 == 0 { vec![SanSpec::Trim] } else { vec![] };
        d.vals = Vals::Std(vec![ValSpec::Regex { pattern: "^[0-9]{3}-[a-zA-Z]+$".into(), form }, ValSpec::LenCharMax(lit_u(12))]);
        out.push(with_derives(d, &[Tr::Debug, Tr::Clone, Tr::PartialEq, Tr::TryFrom, Tr::FromStr, Tr::Deserialize, Tr::Serialize]));
    }
    // validator permutations (C07)
    let base: Vec<ValSpec> = vec![
        ValSpec::NotEmpty,
        ValSpec::LenCharMin(lit_u(2)),
        ValSpec::LenCharMax(lit_u(4)),
        ValSpec::Regex { pattern: "^[a-z@ß]+$".into(), form: RegexForm::Literal },
        ValSpec::Predicate(f("p_has_at", FnForm::Path)),
    ];
    for (pi, p) in permutations(5).iter().enumerate() {
        if pi % 4 != 0 {
            continue;
        }
        let vals: Vec<ValSpec> = p.iter().map(|i| base[*i].clone()).collect();
        let mut d = std(Decl::new(inner), vals).tag("str-perm");
        if pi % 8 == 0 {
            d.sans = vec![SanSpec::Trim];
        }
        out.push(with_derives(d, &[Tr::Debug, Tr::Clone, Tr::PartialEq, Tr::TryFrom, Tr::FromStr]));
    }
    // single traits
    let singles: Vec<Vec<Tr>> = vec![
        vec![Tr::Debug],
        vec![Tr::Clone],
        vec![Tr::PartialEq],
        vec![Tr::PartialEq, Tr::Eq],
        vec![Tr::PartialEq, Tr::PartialOrd],
        vec![Tr::PartialEq, Tr::Eq, Tr::PartialOrd, Tr::Ord],
        vec![Tr::FromStr],
        vec![Tr::AsRef],
        vec![Tr::Deref],
        vec![Tr::TryFrom],
        vec![Tr::Into],
        vec![Tr::Hash],
        vec![Tr::PartialEq, Tr::Eq, Tr::Hash, Tr::Borrow],
        vec![Tr::Display],
        vec![Tr::Default],
        vec![Tr::Serialize],
        vec![Tr::Deserialize],
        vec![Tr::Arbitrary],
    ];
    for (i, s) in singles.iter().enumerate() {
        let mut d = std(Decl::new(inner), vec![ValSpec::NotEmpty, ValSpec::LenCharMax(lit_u(10))]).tag("str-single-trait");
        d.sans = vec![SanSpec::Trim, SanSpec::Lower];
        if s.contains(&Tr::Default) {
            d.default = Some(DefaultSpec { macro_text: "\"  Abc \"".into(), neutral_text: "\"  Abc \"".into(), class: "needs-sanitising".into() });
        }
        out.push(with_derives(d, s));
        if i % 4 == 0 {
            let mut d = Decl::new(inner).tag("str-single-trait-noval");
            d.sans = vec![SanSpec::Upper];
            let mut s2: Vec<Tr> = s.iter().map(|x| if *x == Tr::TryFrom { Tr::From } else { *x }).collect();
            s2.push(Tr::From);
            s2.sort();
            s2.dedup();
            out.push(with_derives(d, &s2));
        }
    }
    // defaults
    for (class, mt) in [("valid", "\"abc\""), ("invalid-empty", "\"\""), ("invalid-after-trim", "\"   \""), ("needs-sanitising", "\"  AbC  \""), ("expr", "String::from(\"xy\")")] {
        let mut d = std(Decl::new(inner), vec![ValSpec::NotEmpty, ValSpec::LenCharMax(lit_u(5))]).tag(&format!("str-default:{class}"));
        d.sans = vec![SanSpec::Trim, SanSpec::Lower];
        d.default = Some(DefaultSpec { macro_text: mt.into(), neutral_text: mt.into(), class: class.into() });
        out.push(with_derives(d, &[Tr::Debug, Tr::Clone, Tr::PartialEq, Tr::Default, Tr::TryFrom]));
    }
    // length bounds spelled as expressions with an operator at the top level: any code that re-uses the bound
    // inside a larger expression (`bound * 4`, `bound + 1`) has to group it
    {
        let exprs: Vec<(&str, &str, u128)> = vec![
            ("add", "KA + 1", 6),
            ("sub", "KB - 90", 10),
            ("mul", "KA * 2", 10),
            ("shl", "ONE << 3", 8),
            ("bitor", "KA | 2", 7),
            ("bitand", "KB & 12", 4),
            ("cast", "KA as u8 as usize", 5),
            ("if-expr", "if KA > 3 { 9 } else { 1 }", 9),
        ];
        for (i, (class, text, v)) in exprs.iter().enumerate() {
            let b = || spelled(class, text, text, Num::U(*v), false);
            for (ki, vals) in [
                vec![ValSpec::LenCharMax(b())],
                vec![ValSpec::LenCharMin(b())],
                vec![ValSpec::LenCharMin(lit_u(1)), ValSpec::LenCharMax(b())],
                vec![ValSpec::LenCharMin(b()), ValSpec::LenCharMax(lit_u(40))],
            ]
            .into_iter()
            .enumerate()
            {
                let mut d = std(Decl::new(inner), vals).tag(&format!("str-len-expr:{class}:{ki}"));
                if (i + ki) % 3 == 0 {
                    d.sans = vec![SanSpec::Trim];
                }
                out.push(with_derives(d, &[Tr::Debug, Tr::Clone, Tr::PartialEq, Tr::TryFrom, Tr::FromStr, Tr::Serialize, Tr::Deserialize, Tr::Arbitrary]));
            }
        }
    }
    // vacuous rules (always satisfied) still own their error variant and their place in the order
    for (i, vals) in [
        vec![ValSpec::LenCharMin(lit_u(0)), ValSpec::LenCharMax(lit_u(8))],
        vec![ValSpec::LenCharMax(lit_u(8)), ValSpec::LenCharMin(lit_u(0))],
        vec![ValSpec::NotEmpty, ValSpec::LenCharMin(lit_u(0))],
        vec![ValSpec::LenCharMin(lit_u(0)), ValSpec::Predicate(f("p_has_at", FnForm::Path))],
        vec![ValSpec::LenCharMin(lit_u(1)), ValSpec::NotEmpty],
        vec![ValSpec::LenCharMin(lit_u(0))],
        vec![ValSpec::LenCharMax(spelled("type-max", "usize::MAX", "usize::MAX", Num::U(u64::MAX as u128), false)), ValSpec::NotEmpty],
    ]
    .into_iter()
    .enumerate()
    {
        let d = std(Decl::new(inner), vals).tag(&format!("str-vacuous-rule:{i}"));
        out.push(with_derives(d, &[Tr::Debug, Tr::Clone, Tr::PartialEq, Tr::TryFrom, Tr::FromStr, Tr::Deserialize]));
    }
    // contradictory expression-valued length bounds: every string violates a rule, many violate both,
    // and the reported variant must still be the first violated rule in the declared order
    {
        let km = || spelled("const", "k::KM", "k::KM", Num::U(3), false);
        let ka = || spelled("const", "KA", "KA", Num::U(5), false);
        for (i, vals) in [
            vec![ValSpec::LenCharMin(ka()), ValSpec::LenCharMax(km())],
            vec![ValSpec::LenCharMax(km()), ValSpec::LenCharMin(ka())],
            vec![ValSpec::NotEmpty, ValSpec::LenCharMin(ka()), ValSpec::LenCharMax(km()), ValSpec::Predicate(f("p_has_at", FnForm::Path))],
            vec![ValSpec::Predicate(f("p_has_at", FnForm::Closure)), ValSpec::LenCharMax(km()), ValSpec::LenCharMin(ka())],
        ]
        .into_iter()
        .enumerate()
        {
            let mut d = std(Decl::new(inner), vals).tag(&format!("str-contradictory-expr:{i}"));
            if i % 2 == 1 {
                d.sans = vec![SanSpec::Trim];
            }
            out.push(with_derives(d, &[Tr::Debug, Tr::Clone, Tr::PartialEq, Tr::TryFrom, Tr::FromStr, Tr::Deserialize]));
        }
    }
    // Arbitrary
    let arb_vals: Vec<(&str, Vec<ValSpec>)> = {
        use ValSpec::*;
        vec![
            ("min", vec![LenCharMin(lit_u(3))]),
            ("max", vec![LenCharMax(lit_u(4))]),
            ("min+max", vec![LenCharMin(lit_u(2)), LenCharMax(lit_u(5))]),
            ("min=max", vec![LenCharMin(lit_u(3)), LenCharMax(lit_u(3))]),
            ("not_empty", vec![NotEmpty]),
            ("not_empty+max", vec![NotEmpty, LenCharMax(lit_u(3))]),
            ("max+not_empty", vec![LenCharMax(lit_u(3)), NotEmpty]),
            ("not_empty+min", vec![NotEmpty, LenCharMin(lit_u(5))]),
            ("min+not_empty", vec![LenCharMin(lit_u(5)), NotEmpty]),
            ("max0", vec![LenCharMax(lit_u(0))]),
            ("expr", vec![LenCharMin(spelled("const", "k::KM", "k::KM", Num::U(3), false)), LenCharMax(spelled("const", "KA", "KA", Num::U(5), false))]),
            ("max1", vec![LenCharMax(lit_u(1))]),
            // two lower bounds of which the expression is the weaker one: the generator has to take the maximum
            ("not_empty+min-expr0", vec![NotEmpty, LenCharMin(spelled("arith-zero", "KA - KA", "KA - KA", Num::U(0), false))]),
            ("min-expr0+not_empty", vec![LenCharMin(spelled("arith-zero", "ONE - 1", "ONE - 1", Num::U(0), false)), NotEmpty, LenCharMax(lit_u(6))]),
            ("not_empty+min-expr1", vec![NotEmpty, LenCharMin(spelled("const", "ONE", "ONE", Num::U(1), false))]),
            ("min-expr3+not_empty", vec![LenCharMin(spelled("mod-const", "k::KM", "k::KM", Num::U(3), false)), NotEmpty]),
        ]
    };
    let arb_sans: Vec<(&str, Vec<SanSpec>)> = vec![
        ("none", vec![]),
        ("trim", vec![SanSpec::Trim]),
        ("lower", vec![SanSpec::Lower]),
        ("upper", vec![SanSpec::Upper]),
        ("trim+upper", vec![SanSpec::Trim, SanSpec::Upper]),
        ("lower+trim", vec![SanSpec::Lower, SanSpec::Trim]),
    ];
    for (vi, (vn, vals)) in arb_vals.iter().enumerate() {
        for (si, (sn, sans)) in arb_sans.iter().enumerate() {
            if (vi + si) % 2 == 1 && !(*sn == "trim" || *sn == "none") {
                continue;
            }
            let mut d = std(Decl::new(inner), vals.clone()).tag(&format!("str-arb:{sn}:{vn}"));
            d.sans = sans.clone();
            out.push(with_derives(d, &[Tr::Debug, Tr::Arbitrary]));
        }
    }
    for (sn, sans) in [("none", vec![]), ("trim", vec![SanSpec::Trim]), ("custom", vec![SanSpec::With(f("s_appendx", FnForm::Closure))])] {
        let mut d = Decl::new(inner).tag(&format!("str-arb:novalidation:{sn}"));
        d.sans = sans;
        out.push(with_derives(d, &[Tr::Debug, Tr::Arbitrary]));
    }
}

fn others(out: &mut Vec<Decl>) {
    // Vec<i32>
    let inner = Inner::VecI32;
    let mut k = 0;
    for sl in [vec![], vec!["s_sort"], vec!["s_dedup"], vec!["s_push0"], vec!["s_take3"]] {
        for vi in 0..4 {
            let mut d = Decl::new(inner).tag("vec-sanitize");
            d.sans = sl.iter().map(|n| { k += 1; SanSpec::With(f(n, FN_FORMS[k % FN_FORMS.len()])) }).collect();
            k += 1;
            let form = FN_FORMS[k % FN_FORMS.len()];
            d.vals = match vi {
                0 => Vals::None,
                1 => Vals::Std(vec![ValSpec::Predicate(f("p_nonempty", form))]),
                2 => Vals::Std(vec![ValSpec::Predicate(f("p_short", form))]),
                _ => Vals::Custom(f("v_sum", FnForm::Path)),
            };
            if vi == 1 {
                d.default = Some(DefaultSpec { macro_text: "vec![3, 1, 2]".into(), neutral_text: "vec![3, 1, 2]".into(), class: "valid".into() });
            }
            out.push(with_full(d));
        }
    }
    // Point
    let inner = Inner::Point;
    for sl in [vec![], vec!["s_abs"], vec!["s_swap"]] {
        for vi in 0..4 {
            let mut d = Decl::new(inner).tag("point-sanitize");
            d.sans = sl.iter().map(|n| { k += 1; SanSpec::With(f(n, FN_FORMS[k % FN_FORMS.len()])) }).collect();
            k += 1;
            let form = FN_FORMS[k % FN_FORMS.len()];
            d.vals = match vi {
                0 => Vals::None,
                1 => Vals::Std(vec![ValSpec::Predicate(f("p_xpos", form))]),
                2 => Vals::Std(vec![ValSpec::Predicate(f("p_diag", form))]),
                _ => Vals::Custom(f("v_far", FnForm::Path)),
            };
            if vi == 1 {
                d.default =
                    Some(DefaultSpec { macro_text: "Point { x: 3, y: -4 }".into(), neutral_text: "Point { x: 3, y: -4 }".into(), class: "valid".into() });
            }
            out.push(with_full(d));
        }
    }
    // single traits on both
    let singles: Vec<Vec<Tr>> = vec![
        vec![Tr::Debug],
        vec![Tr::Clone],
        vec![Tr::PartialEq, Tr::Eq],
        vec![Tr::PartialEq, Tr::Eq, Tr::PartialOrd, Tr::Ord],
        vec![Tr::AsRef],
        vec![Tr::Deref],
        vec![Tr::TryFrom],
        vec![Tr::Into],
        vec![Tr::PartialEq, Tr::Eq, Tr::Hash, Tr::Borrow],
        vec![Tr::Default],
        vec![Tr::Serialize],
        vec![Tr::Deserialize],
    ];
    for s in &singles {
        let mut d = std(Decl::new(Inner::VecI32), vec![ValSpec::Predicate(f("p_nonempty", FnForm::Closure))]).tag("vec-single-trait");
        d.sans = vec![SanSpec::With(f("s_sort", FnForm::ClosureMut))];
        if s.contains(&Tr::Default) {
            d.default = Some(DefaultSpec { macro_text: "vec![2, 1]".into(), neutral_text: "vec![2, 1]".into(), class: "needs-sanitising".into() });
        }
        out.push(with_derives(d, s));
        let mut d = std(Decl::new(Inner::Point), vec![ValSpec::Predicate(f("p_xpos", FnForm::Closure))]).tag("point-single-trait");
        d.sans = vec![SanSpec::With(f("s_abs", FnForm::Path))];
        if s.contains(&Tr::Default) {
            d.default = Some(DefaultSpec { macro_text: "Point { x: -3, y: 1 }".into(), neutral_text: "Point { x: -3, y: 1 }".into(), class: "needs-sanitising".into() });
        }
        out.push(with_derives(d, s));
    }
    out.push(with_derives(Decl::new(Inner::VecI32).tag("vec-intoiter"), &[Tr::Debug, Tr::IntoIterator, Tr::Arbitrary]));
    let mut d = Decl::new(Inner::VecI32).tag("vec-intoiter-validated");
    d.sans = vec![SanSpec::With(f("s_sort", FnForm::Closure))];
    d.vals = Vals::Std(vec![ValSpec::Predicate(f("p_short", FnForm::Closure))]);
    out.push(with_derives(d, &[Tr::Debug, Tr::IntoIterator]));
    out.push(with_derives(Decl::new(Inner::Point).tag("point-arb"), &[Tr::Debug, Tr::Arbitrary, Tr::FromStr, Tr::Display]));
    // Point default invalid
    let mut d = std(Decl::new(Inner::Point), vec![ValSpec::Predicate(f("p_xpos", FnForm::Closure))]).tag("point-default:invalid");
    d.default = Some(DefaultSpec { macro_text: "Point { x: -3, y: 1 }".into(), neutral_text: "Point { x: -3, y: 1 }".into(), class: "invalid".into() });
    out.push(with_derives(d, &[Tr::Debug, Tr::Default, Tr::TryFrom]));

    // const_fn twin on Point
    let mut base = Decl::new(Inner::Point);
    base.sans = vec![SanSpec::With(f("s_abs", FnForm::Path))];
    base.vals = Vals::Std(vec![ValSpec::Predicate(f("p_xpos", FnForm::Path))]);
    base = with_derives(base, &[Tr::Debug, Tr::Clone, Tr::PartialEq]).tag("twin-base");
    let mut tw = base.clone();
    tw.const_fn = true;
    tw.tags = vec!["twin:const_fn".into()];
    tw.twin_kind = Some("const_fn".into());
    tw.sans = vec![SanSpec::With(f("s_abs", FnForm::ConstPath))];
    tw.vals = Vals::Std(vec![ValSpec::Predicate(f("p_xpos", FnForm::ConstPath))]);
    tw.const_evals = vec!["Point { x: -3, y: 1 }".into(), "Point { x: 0, y: 1 }".into()];
    tw.twin_of = Some("PREV".into());
    out.push(base);
    out.push(tw);

    // generic twins: `W<T: HasX>(T)` at Point and `W<T: Ord + Clone>(Vec<T>)` at i32
    let mut base = Decl::new(Inner::Point);
    base.vals = Vals::Std(vec![ValSpec::Predicate(f("p_xpos", FnForm::Closure))]);
    let base = with_full(base.tag("twin-base"));
    let mut tw = base.clone();
    tw.generic = Generic::T;
    tw.vals = Vals::Std(vec![ValSpec::Predicate(f("g_p_xpos", FnForm::Closure))]);
    tw.tags = vec!["twin:generic".into()];
    tw.twin_kind = Some("generic".into());
    tw.twin_of = Some("PREV".into());
    tw.derives = full_derives(&tw);
    out.push(base);
    out.push(tw.clone());
    // generic declaration whose default depends on the instantiation (`T::default()`): valid at PosPoint, invalid at Point
    let mut gd = tw;
    gd.twin_of = None;
    gd.twin_kind = None;
    gd.tags = vec!["generic-default-depends-on-T".into()];
    gd.default = Some(DefaultSpec { macro_text: "T::default()".into(), neutral_text: "Point::default()".into(), class: "generic-depends-on-T".into() });
    gd.derives = vec![Tr::Debug, Tr::Clone, Tr::PartialEq, Tr::Default];
    out.push(gd);
    for (sans, pred) in [(vec!["s_sort"], Some("p_nonempty")), (vec!["s_dedup"], None), (vec![], Some("p_short"))] {
        let mut base = Decl::new(Inner::VecI32);
        base.sans = sans.iter().map(|n| SanSpec::With(f(n, FnForm::Closure))).collect();
        if let Some(p) = pred {
            base.vals = Vals::Std(vec![ValSpec::Predicate(f(p, FnForm::Closure))]);
        }
        let base = with_full(base.tag("twin-base"));
        let mut tw = base.clone();
        tw.generic = Generic::VecT;
        tw.sans = sans.iter().map(|n| SanSpec::With(f(&format!("g_{n}"), FnForm::Closure))).collect();
        if let Some(p) = pred {
            tw.vals = Vals::Std(vec![ValSpec::Predicate(f(&format!("g_{p}"), FnForm::Closure))]);
        }
        tw.tags = vec!["twin:generic".into()];
        tw.twin_kind = Some("generic".into());
        tw.twin_of = Some("PREV".into());
        tw.derives = full_derives(&tw);
        out.push(base);
        out.push(tw);
    }
}

/// lifetime-parameterised declarations `W<'a>(Cow<'a, [f32]>)`
fn cows(out: &mut Vec<Decl>) {
    let inner = Inner::CowF32;
    let mut k = 0;
    for sl in [vec![], vec!["s_abs_all"], vec!["s_take3"], vec!["s_push0"]] {
        for vi in 0..5 {
            let mut d = Decl::new(inner).tag("cow-sanitize");
            d.sans = sl.iter().map(|n| { k += 1; SanSpec::With(f(n, FN_FORMS[k % FN_FORMS.len()])) }).collect();
            k += 1;
            let form = FN_FORMS[k % FN_FORMS.len()];
            d.vals = match vi {
                0 => Vals::None,
                1 => Vals::Std(vec![ValSpec::Predicate(f("p_nonempty", form))]),
                2 => Vals::Std(vec![ValSpec::Predicate(f("p_short", form))]),
                3 => Vals::Std(vec![ValSpec::Predicate(f("p_no_nan", form))]),
                _ => Vals::Custom(f("v_sum", FnForm::Path)),
            };
            if vi == 1 {
                d.default = Some(DefaultSpec { macro_text: "Cow::Borrowed(&[3.0, -1.0, 2.0])".into(), neutral_text: "Cow::Borrowed(&[3.0, -1.0, 2.0])".into(), class: "valid".into() });
            }
            if vi == 2 {
                d.default = Some(DefaultSpec { macro_text: "Cow::Owned(vec![1.0; 5])".into(), neutral_text: "Cow::Owned(vec![1.0; 5])".into(), class: "maybe-invalid".into() });
            }
            out.push(with_full(d.clone()));
            if vi == 0 {
                out.push(with_full_tryfrom(d));
            }
        }
    }
    let singles: Vec<Vec<Tr>> = vec![
        vec![Tr::Debug],
        vec![Tr::Clone],
        vec![Tr::PartialEq],
        vec![Tr::PartialEq, Tr::PartialOrd],
        vec![Tr::AsRef],
        vec![Tr::Deref],
        vec![Tr::TryFrom],
        vec![Tr::Into],
        vec![Tr::Borrow],
        vec![Tr::Default],
        vec![Tr::Serialize],
        vec![Tr::Deserialize],
    ];
    for s in &singles {
        let mut d = std(Decl::new(inner), vec![ValSpec::Predicate(f("p_nonempty", FnForm::Closure))]).tag("cow-single-trait");
        d.sans = vec![SanSpec::With(f("s_abs_all", FnForm::Path))];
        if s.contains(&Tr::Default) {
            d.default = Some(DefaultSpec { macro_text: "Cow::Borrowed(&[-2.0, 1.0])".into(), neutral_text: "Cow::Borrowed(&[-2.0, 1.0])".into(), class: "needs-sanitising".into() });
        }
        out.push(with_derives(d, s));
    }
    // no validation, no sanitizers: From
    out.push(with_full(Decl::new(inner).tag("cow-bare")));
}

/// bound expressions mentioning user items named like a generator's own locals (MIN, MAX, LOWER, UPPER, RANGE,
/// lower(), upper()), each on the side where a captured name would change the value; and type names that a
/// generator might take apart (ending in `Error`, `ParseError`, a single letter)
fn capture_and_names(out: &mut Vec<Decl>) {
    for t in [IntTy::I32, IntTy::U8, IntTy::I16] {
        let sets: Vec<(&str, Vec<ValSpec>)> = vec![
            ("lower-uses-MAX", vec![ValSpec::GreaterEq(expr_i("capture", "MAX - 95", 5)), ValSpec::LessEq(lit_i(60))]),
            ("upper-uses-MIN", vec![ValSpec::Greater(lit_i(2)), ValSpec::Less(expr_i("capture", "MIN + 50", 60))]),
            ("both-swapped", vec![ValSpec::LessEq(expr_i("capture", "MIN + 60", 70)), ValSpec::GreaterEq(expr_i("capture", "MAX - 97", 3))]),
            ("fns", vec![ValSpec::GreaterEq(expr_i("capture", "lower()", 10)), ValSpec::Less(expr_i("capture", "upper()", 100))]),
            ("LOWER-UPPER", vec![ValSpec::Greater(expr_i("capture", "LOWER - 5", 5)), ValSpec::Less(expr_i("capture", "UPPER", 100))]),
            ("RANGE", vec![ValSpec::LessEq(expr_i("capture", "RANGE", 90)), ValSpec::GreaterEq(expr_i("capture", "RANGE - 80", 10))]),
            ("one-sided-MAX", vec![ValSpec::Less(expr_i("capture", "MAX", 100))]),
            ("one-sided-MIN", vec![ValSpec::GreaterEq(expr_i("capture", "MIN", 10))]),
        ];
        for (name, vals) in sets {
            let mut d = std(Decl::new(Inner::Int(t)), vals).tag(&format!("capture:{name}"));
            d.default = Some(DefaultSpec { macro_text: "MIN + MIN".into(), neutral_text: "MIN + MIN".into(), class: "expr".into() });
            out.push(with_derives(d, &[Tr::Debug, Tr::Clone, Tr::PartialEq, Tr::TryFrom, Tr::FromStr, Tr::Display, Tr::Default, Tr::Deserialize, Tr::Arbitrary]));
        }
    }
    for inner in [Inner::F32, Inner::F64] {
        let sets: Vec<(&str, Vec<ValSpec>)> = vec![
            ("lower-uses-MAX", vec![ValSpec::GreaterEq(expr_f("capture", "MAX - 95.0", 5.0)), ValSpec::LessEq(lit_f(60.0))]),
            ("upper-uses-MIN", vec![ValSpec::Greater(lit_f(2.0)), ValSpec::Less(expr_f("capture", "MIN + 50.0", 60.0)), ValSpec::Finite]),
            ("RANGE-LOWER", vec![ValSpec::Finite, ValSpec::LessEq(expr_f("capture", "RANGE", 90.0)), ValSpec::Greater(expr_f("capture", "LOWER - 5.0", 5.0))]),
            ("fns", vec![ValSpec::GreaterEq(expr_f("capture", "lower()", 10.0)), ValSpec::Less(expr_f("capture", "upper()", 100.0))]),
            ("one-sided-MAX", vec![ValSpec::Less(expr_f("capture", "MAX", 100.0)), ValSpec::Finite]),
        ];
        for (name, vals) in sets {
            let mut d = std(Decl::new(inner), vals).tag(&format!("capture:{name}"));
            d.default = Some(DefaultSpec { macro_text: "MIN + MIN".into(), neutral_text: "MIN + MIN".into(), class: "expr".into() });
            out.push(with_derives(d, &[Tr::Debug, Tr::Clone, Tr::PartialEq, Tr::TryFrom, Tr::FromStr, Tr::Display, Tr::Default, Tr::Deserialize, Tr::Arbitrary]));
        }
    }
    {
        let u = |t: &str, v: u128| spelled("capture", t, t, Num::U(v), false);
        for (name, vals) in [
            ("len-MIN-MAX", vec![ValSpec::LenCharMin(u("MIN - 8", 2)), ValSpec::LenCharMax(u("MAX - 90", 10))]),
            ("len-swapped", vec![ValSpec::LenCharMax(u("MIN", 10)), ValSpec::LenCharMin(u("MAX - 99", 1))]),
            ("len-fns", vec![ValSpec::LenCharMax(u("lower()", 10)), ValSpec::NotEmpty]),
        ] {
            let d = std(Decl::new(Inner::Str), vals).tag(&format!("capture:{name}"));
            out.push(with_derives(d, &[Tr::Debug, Tr::Clone, Tr::PartialEq, Tr::TryFrom, Tr::FromStr, Tr::Display, Tr::Deserialize, Tr::Arbitrary]));
        }
    }
    // type names
    for (ni, name) in ["RelativeError", "Error", "ParseError", "SyntaxErrorError", "E", "Errorless", "TError"].into_iter().enumerate() {
        let mk = |inner: Inner, vals: Vec<ValSpec>| {
            let mut d = std(Decl::new(inner), vals).tag(&format!("type-name:{name}"));
            d.name_override = Some(name.to_string());
            d
        };
        let traits = [Tr::Debug, Tr::Clone, Tr::PartialEq, Tr::TryFrom, Tr::FromStr, Tr::Display, Tr::Serialize, Tr::Deserialize];
        match ni % 3 {
            0 => out.push(with_derives(mk(Inner::Int(IntTy::I32), vec![ValSpec::LessEq(lit_i(100)), ValSpec::GreaterEq(lit_i(-5))]), &traits)),
            1 => out.push(with_derives(mk(Inner::F64, vec![ValSpec::Finite, ValSpec::Greater(lit_f(0.0)), ValSpec::LessEq(lit_f(1.0))]), &traits)),
            _ => {
                let mut d = mk(Inner::Str, vec![ValSpec::NotEmpty, ValSpec::LenCharMax(lit_u(8))]);
                d.sans = vec![SanSpec::Trim];
                out.push(with_derives(d, &traits));
            }
        }
    }
}

/// `default = next_default()`: a default expression whose value differs from call to call (a counter, a
/// configuration read): every call of `Default::default()` - not only the first - runs the guards
fn stateful_defaults(out: &mut Vec<Decl>) {
    let mk = |inner: Inner, vals: Vec<ValSpec>, body: &str, derives: &[Tr]| {
        let mut d = std(Decl::new(inner), vals).tag("stateful-default");
        d.default = Some(DefaultSpec { macro_text: "next_default()".into(), neutral_text: body.into(), class: "stateful".into() });
        with_derives(d, derives)
    };
    let num = [Tr::Debug, Tr::Clone, Tr::Copy, Tr::PartialEq, Tr::Eq, Tr::PartialOrd, Tr::Ord, Tr::Default, Tr::TryFrom];
    for t in [IntTy::I32, IntTy::U8] {
        let body = if t.signed() { "[10, 120, 11, -120, 12, 101][i % 6]" } else { "[10, 120, 11, 200, 12, 101][i % 6]" };
        out.push(mk(Inner::Int(t), vec![ValSpec::GreaterEq(lit_i(0)), ValSpec::LessEq(lit_i(100))], body, &num));
    }
    for inner in [Inner::F32, Inner::F64] {
        let ty = inner.ty();
        let body = format!("[1.5, {ty}::NAN, 2.5, {ty}::INFINITY, 3.5, -1.0][i % 6]");
        out.push(mk(inner, vec![ValSpec::Finite, ValSpec::GreaterEq(lit_f(0.0)), ValSpec::LessEq(lit_f(100.0))], &body, &num));
        out.push(mk(inner, vec![ValSpec::GreaterEq(lit_f(0.0)), ValSpec::Finite], &body, &num));
    }
    let mut d = mk(Inner::Str, vec![ValSpec::NotEmpty, ValSpec::LenCharMax(lit_u(4))], "[\"ab\", \"\", \" cd \", \"   \", \"ef\", \"toolong\"][i % 6].to_string()", &[Tr::Debug, Tr::Clone, Tr::PartialEq, Tr::Default, Tr::TryFrom]);
    d.sans = vec![SanSpec::Trim];
    out.push(d);
}

/// Declarations whose *acceptance is not asserted*: `derive(Arbitrary)` next to things the macro documents it
/// cannot generate for (a `with` sanitizer plus validation, `predicate`, `regex`, custom validation). The
/// tree as received rejects every one of them; should a tree accept one, C09 holds it to its word (the
/// generator must then produce valid values and not panic).
pub fn c09_optional_decls() -> Vec<Decl> {
    let mut out: Vec<Decl> = vec![];
    let arb = [Tr::Debug, Tr::Arbitrary];
    use SanSpec::*;
    let w = |n: &str| With(f(n, FnForm::Closure));
    for sans in [vec![Trim, w("s_appendx")], vec![w("s_appendx"), Trim], vec![Lower, w("s_trunc5")], vec![w("s_at2sp")], vec![Trim, Lower, w("s_prepz")], vec![Trim, w("s_padsp"), Upper]] {
        for vals in [vec![ValSpec::NotEmpty, ValSpec::LenCharMax(lit_u(6))], vec![ValSpec::LenCharMin(lit_u(2)), ValSpec::LenCharMax(lit_u(8))]] {
            let mut d = std(Decl::new(Inner::Str), vals).tag("optional-accept:string-with-sanitizer");
            d.sans = sans.clone();
            out.push(with_derives(d, &arb));
        }
    }
    for inner in [Inner::F32, Inner::F64] {
        for sn in ["s_clamp", "s_add1", "s_neg"] {
            let mut d = std(Decl::new(inner), vec![ValSpec::GreaterEq(lit_f(0.0)), ValSpec::LessEq(lit_f(50.0))]).tag("optional-accept:float-with-sanitizer");
            d.sans = vec![w(sn)];
            out.push(with_derives(d, &arb));
        }
        let d = std(Decl::new(inner), vec![ValSpec::Less(lit_f(60.0)), ValSpec::Predicate(f("p_not50", FnForm::Closure))]).tag("optional-accept:float-predicate");
        out.push(with_derives(d, &arb));
        let mut d = Decl::new(inner).tag("optional-accept:float-custom");
        d.vals = Vals::Custom(f("v_small", FnForm::Path));
        out.push(with_derives(d, &arb));
    }
    for t in [IntTy::I32, IntTy::U8] {
        let d = std(Decl::new(Inner::Int(t)), vec![ValSpec::LessEq(lit_i(100)), ValSpec::Predicate(f("p_even", FnForm::Closure))]).tag("optional-accept:int-predicate");
        out.push(with_derives(d, &arb));
        let mut d = Decl::new(Inner::Int(t)).tag("optional-accept:int-custom");
        d.vals = Vals::Custom(f("v_small", FnForm::Path));
        out.push(with_derives(d, &arb));
    }
    let d = std(Decl::new(Inner::Str), vec![ValSpec::Predicate(f("p_has_at", FnForm::Closure)), ValSpec::LenCharMax(lit_u(8))]).tag("optional-accept:string-predicate");
    out.push(with_derives(d, &arb));
    let d = std(Decl::new(Inner::Str), vec![ValSpec::Regex { pattern: "^[a-z]{2,4}$".into(), form: RegexForm::Literal }]).tag("optional-accept:string-regex");
    out.push(with_derives(d, &arb));
    let mut d = Decl::new(Inner::Str).tag("optional-accept:string-custom");
    d.vals = Vals::Custom(f("v_nobang", FnForm::Path));
    out.push(with_derives(d, &arb));
    finalize(out, "o")
}

/// a bound expression that reads run-time state (a limit in an atomic, as a configuration value would be): the
/// validator reads it on every call, and so must everything else generated from the same tokens
fn dynamic_bounds(out: &mut Vec<Decl>) {
    for (k, vals) in [
        vec![ValSpec::GreaterEq(lit_i(0)), ValSpec::LessEq(spelled("dynamic", "dyn_max()", "10", Num::I(10), false))],
        vec![ValSpec::LessEq(spelled("dynamic", "dyn_max()", "10", Num::I(10), false)), ValSpec::GreaterEq(lit_i(0))],
        vec![ValSpec::GreaterEq(lit_i(0)), ValSpec::Less(spelled("dynamic", "dyn_max() + 1", "11", Num::I(11), false))],
    ]
    .into_iter()
    .enumerate()
    {
        let d = std(Decl::new(Inner::Int(IntTy::I32)), vals).tag(&format!("dynamic-bound:{k}"));
        out.push(with_derives(d, &[Tr::Debug, Tr::Clone, Tr::PartialEq, Tr::TryFrom, Tr::FromStr, Tr::Arbitrary]));
    }
}

/// byte buffers `Vec<u8>`
fn byte_vecs(out: &mut Vec<Decl>) {
    let inner = Inner::VecU8;
    let mut k = 0;
    for sl in [vec![], vec!["s_sort"], vec!["s_take3"], vec!["s_push0"]] {
        for vi in 0..5 {
            let mut d = Decl::new(inner).tag("bytes-sanitize");
            d.sans = sl.iter().map(|n| { k += 1; SanSpec::With(f(n, FN_FORMS[k % FN_FORMS.len()])) }).collect();
            k += 1;
            let form = FN_FORMS[k % FN_FORMS.len()];
            d.vals = match vi {
                0 => Vals::None,
                1 => Vals::Std(vec![ValSpec::Predicate(f("p_nonempty", form))]),
                2 => Vals::Std(vec![ValSpec::Predicate(f("p_short", form))]),
                3 => Vals::Std(vec![ValSpec::Predicate(f("p_utf8", form))]),
                _ => Vals::Custom(f("v_sum", FnForm::Path)),
            };
            if vi == 1 {
                d.default = Some(DefaultSpec { macro_text: "vec![3, 1, 2]".into(), neutral_text: "vec![3, 1, 2]".into(), class: "valid".into() });
            }
            out.push(with_full(d.clone()));
            if vi == 0 {
                out.push(with_full_tryfrom(d));
            }
        }
    }
    for s in [vec![Tr::Serialize], vec![Tr::Deserialize], vec![Tr::Serialize, Tr::Deserialize], vec![Tr::PartialEq, Tr::Eq, Tr::Hash, Tr::Borrow], vec![Tr::Deref], vec![Tr::AsRef], vec![Tr::Into]] {
        let mut d = std(Decl::new(inner), vec![ValSpec::Predicate(f("p_nonempty", FnForm::Closure))]).tag("bytes-single-trait");
        d.sans = vec![SanSpec::With(f("s_sort", FnForm::Path))];
        out.push(with_derives(d, &s));
    }
}

/// declarations without validation deriving `TryFrom` (infallible): bare and sanitize-only, every family
fn infallible_try_from(out: &mut Vec<Decl>) {
    let mut k = 0;
    let mut push = |inner: Inner, sans: Vec<&str>, builtin: Vec<SanSpec>| {
        let mut d = Decl::new(inner).tag("noval-tryfrom");
        d.sans = builtin;
        for n in sans {
            k += 1;
            d.sans.push(SanSpec::With(f(n, FN_FORMS[k % FN_FORMS.len()])));
        }
        out.push(with_full_tryfrom(d));
    };
    for t in [IntTy::U8, IntTy::I16, IntTy::I32, IntTy::U64, IntTy::I128, IntTy::Usize] {
        push(Inner::Int(t), vec![], vec![]);
        push(Inner::Int(t), vec!["s_clamp"], vec![]);
        push(Inner::Int(t), vec!["s_half"], vec![]);
    }
    for inner in [Inner::F32, Inner::F64] {
        push(inner, vec![], vec![]);
        push(inner, vec!["s_clamp"], vec![]);
        push(inner, vec!["s_add1"], vec![]);
    }
    push(Inner::Str, vec![], vec![]);
    push(Inner::Str, vec![], vec![SanSpec::Trim, SanSpec::Lower]);
    push(Inner::Str, vec!["s_appendx"], vec![SanSpec::Trim]);
    push(Inner::VecI32, vec![], vec![]);
    push(Inner::VecI32, vec!["s_sort"], vec![]);
    push(Inner::VecI32, vec!["s_push0"], vec![]);
    push(Inner::Point, vec![], vec![]);
    push(Inner::Point, vec!["s_abs"], vec![]);
    push(Inner::Point, vec!["s_swap"], vec![]);
}

pub fn permutations(n: usize) -> Vec<Vec<usize>> {
    fn rec(cur: &mut Vec<usize>, used: &mut Vec<bool>, n: usize, out: &mut Vec<Vec<usize>>) {
        if cur.len() == n {
            out.push(cur.clone());
            return;
        }
        for i in 0..n {
            if !used[i] {
                used[i] = true;
                cur.push(i);
                rec(cur, used, n, out);
                cur.pop();
                used[i] = false;
            }
        }
    }
    let mut out = vec![];
    rec(&mut vec![], &mut vec![false; n], n, &mut out);
    out
}

/// assign ids / type names and resolve `twin_of: PREV`
pub fn finalize(mut decls: Vec<Decl>, prefix: &str) -> Vec<Decl> {
    let mut prev_id = String::new();
    for (i, d) in decls.iter_mut().enumerate() {
        d.id = format!("{prefix}{:04}", i + 1);
        d.type_name = match &d.name_override {
            Some(n) => n.clone(),
            None => format!("T{}{:04}", prefix.to_uppercase(), i + 1),
        };
        if d.twin_of.as_deref() == Some("PREV") {
            d.twin_of = Some(prev_id.clone());
        }
        prev_id = d.id.clone();
        d.tags.push(format!("family:{}", d.inner.family()));
        d.tags.push(format!("inner:{}", d.inner.ty()));
    }
    decls
}
