//! Abstract declarations (`Decl`) and their rendering to Rust source: the
//! `#[nutype(..)]` item as the macro sees it, the neutral `const`s from which rustc
//! computes the denoted bound values, the static reference model and the glue table.

use serde::Serialize;
use std::fmt::Write;

macro_rules! w {
    ($o:expr, $($arg:tt)*) => {{ let _ = writeln!($o, $($arg)*); }};
}

#[derive(Clone, Copy, Debug, PartialEq, Eq, Hash, Serialize, PartialOrd, Ord)]
pub enum IntTy {
    U8,
    U16,
    U32,
    U64,
    U128,
    Usize,
    I8,
    I16,
    I32,
    I64,
    I128,
    Isize,
}

pub const INT_TYS: [IntTy; 12] = [
    IntTy::U8,
    IntTy::U16,
    IntTy::U32,
    IntTy::U64,
    IntTy::U128,
    IntTy::Usize,
    IntTy::I8,
    IntTy::I16,
    IntTy::I32,
    IntTy::I64,
    IntTy::I128,
    IntTy::Isize,
];

impl IntTy {
    pub fn name(self) -> &'static str {
        match self {
            IntTy::U8 => "u8",
            IntTy::U16 => "u16",
            IntTy::U32 => "u32",
            IntTy::U64 => "u64",
            IntTy::U128 => "u128",
            IntTy::Usize => "usize",
            IntTy::I8 => "i8",
            IntTy::I16 => "i16",
            IntTy::I32 => "i32",
            IntTy::I64 => "i64",
            IntTy::I128 => "i128",
            IntTy::Isize => "isize",
        }
    }
    pub fn signed(self) -> bool {
        matches!(self, IntTy::I8 | IntTy::I16 | IntTy::I32 | IntTy::I64 | IntTy::I128 | IntTy::Isize)
    }
    pub fn bits(self) -> u32 {
        match self {
            IntTy::U8 | IntTy::I8 => 8,
            IntTy::U16 | IntTy::I16 => 16,
            IntTy::U32 | IntTy::I32 => 32,
            IntTy::U64 | IntTy::I64 | IntTy::Usize | IntTy::Isize => 64,
            IntTy::U128 | IntTy::I128 => 128,
        }
    }
    /// MIN / MAX as i128 where representable (u128::MAX saturates)
    pub fn min_v(self) -> i128 {
        if self.signed() {
            if self.bits() == 128 {
                i128::MIN
            } else {
                -(1i128 << (self.bits() - 1))
            }
        } else {
            0
        }
    }
    pub fn max_v(self) -> i128 {
        if self.signed() {
            if self.bits() == 128 {
                i128::MAX
            } else {
                (1i128 << (self.bits() - 1)) - 1
            }
        } else if self.bits() == 128 {
            i128::MAX
        } else {
            (1i128 << self.bits()) - 1
        }
    }
}

#[derive(Clone, Copy, Debug, PartialEq, Eq, Hash, Serialize)]
pub enum Inner {
    Str,
    Int(IntTy),
    F32,
    F64,
    VecI32,
    Point,
    /// `struct W<'a>(Cow<'a, [f32]>)`: lifetime-parameterised, no Eq/Ord/Hash, PartialEq not reflexive
    CowF32,
    /// `Vec<u8>`: byte buffers have a second serde representation (`bytes`)
    VecU8,
}

impl Inner {
    /// type as written in the declaration (non-generic form) and in the glue
    pub fn ty(self) -> &'static str {
        match self {
            Inner::Str => "String",
            Inner::Int(t) => t.name(),
            Inner::F32 => "f32",
            Inner::F64 => "f64",
            Inner::VecI32 => "Vec<i32>",
            Inner::Point => "Point",
            Inner::CowF32 => "Cow<'static, [f32]>",
            Inner::VecU8 => "Vec<u8>",
        }
    }
    pub fn family(self) -> &'static str {
        match self {
            Inner::Str => "string",
            Inner::Int(_) => "integer",
            Inner::F32 | Inner::F64 => "float",
            Inner::VecI32 | Inner::Point | Inner::CowF32 | Inner::VecU8 => "other",
        }
    }
    /// module of `vlib::fns` holding the custom functions for this inner type
    pub fn fn_mod(self) -> String {
        match self {
            Inner::Str => "fstr".into(),
            Inner::Int(t) => format!("f{}", t.name()),
            Inner::F32 => "ff32".into(),
            Inner::F64 => "ff64".into(),
            Inner::VecI32 => "fvec".into(),
            Inner::Point => "fpoint".into(),
            Inner::CowF32 => "fcow".into(),
            Inner::VecU8 => "fbytes".into(),
        }
    }
    pub fn entry_variant(self) -> &'static str {
        match self {
            Inner::Str => "Str",
            Inner::Int(IntTy::U8) => "U8",
            Inner::Int(IntTy::U16) => "U16",
            Inner::Int(IntTy::U32) => "U32",
            Inner::Int(IntTy::U64) => "U64",
            Inner::Int(IntTy::U128) => "U128",
            Inner::Int(IntTy::Usize) => "Usize",
            Inner::Int(IntTy::I8) => "I8",
            Inner::Int(IntTy::I16) => "I16",
            Inner::Int(IntTy::I32) => "I32",
            Inner::Int(IntTy::I64) => "I64",
            Inner::Int(IntTy::I128) => "I128",
            Inner::Int(IntTy::Isize) => "Isize",
            Inner::F32 => "F32",
            Inner::F64 => "F64",
            Inner::VecI32 => "VecI32",
            Inner::Point => "Point",
            Inner::CowF32 => "CowF32",
            Inner::VecU8 => "VecU8",
        }
    }
    pub fn is_float(self) -> bool {
        matches!(self, Inner::F32 | Inner::F64)
    }
    pub fn is_int(self) -> bool {
        matches!(self, Inner::Int(_))
    }
    pub fn is_other(self) -> bool {
        matches!(self, Inner::VecI32 | Inner::Point | Inner::CowF32 | Inner::VecU8)
    }
}

#[derive(Clone, Copy, Debug, PartialEq, Eq, Hash, Serialize)]
pub enum Generic {
    None,
    /// `struct W<T: HasX>(T)` instantiated at `Point`
    T,
    /// `struct W<T: Ord + Clone>(Vec<T>)` instantiated at `i32`
    VecT,
}

/// Syntactic form in which a custom function is handed to the macro.
#[derive(Clone, Copy, Debug, PartialEq, Eq, Hash, Serialize)]
pub enum FnForm {
    Path,
    Closure,
    ClosureTyped,
    ClosureMut,
    ClosureMove,
    ClosureBlock,
    /// `const fn` path (for `const_fn` declarations)
    ConstPath,
}
pub const FN_FORMS: [FnForm; 6] =
    [FnForm::Path, FnForm::Closure, FnForm::ClosureTyped, FnForm::ClosureMut, FnForm::ClosureMove, FnForm::ClosureBlock];

/// A custom function from `vlib::fns` (mirrors that module).
#[derive(Clone, Debug, PartialEq, Eq, Hash, Serialize)]
pub struct FnRef {
    /// e.g. "s_clamp"
    pub name: String,
    pub form: FnForm,
    pub idempotent: bool,
}

impl FnRef {
    pub fn new(name: &str, form: FnForm) -> Self {
        let idempotent = matches!(
            name,
            "s_clamp" | "s_even" | "s_nan0" | "s_big2inf" | "s_abs" | "s_abs_all" | "s_trunc5" | "s_repl" | "s_at2sp" | "s_bang2z" | "s_sort" | "s_dedup" | "s_take3" | "g_s_sort" | "g_s_dedup" | "g_s_take3"
        );
        FnRef { name: name.to_string(), form, idempotent }
    }
    pub fn has_const_twin(&self) -> bool {
        matches!(self.name.as_str(), "s_clamp" | "s_wadd1" | "p_even" | "v_small" | "p_not50" | "s_abs" | "p_xpos")
    }
}

#[derive(Clone, Debug, PartialEq, Serialize)]
pub enum Num {
    I(i128),
    U(u128),
    F(f64),
}

/// A bound as *spelled* for the macro and as placed in a neutral `const`.
#[derive(Clone, Debug, PartialEq, Serialize)]
pub struct Bound {
    /// text after `greater = ` etc.
    pub macro_text: String,
    /// text of the initialiser of the neutral `const Bn: T = ..;`
    pub neutral_text: String,
    /// spelling class, e.g. "lit", "const", "neg-const", "shift"
    pub class: String,
    /// value the generator intends (guides generation only; rustc computes the real one)
    pub intended: Num,
    /// does the macro see a literal (so it can run its own consistency checks)?
    pub literal: bool,
}

#[derive(Clone, Debug, PartialEq, Serialize)]
pub enum RegexForm {
    Literal,
    LazyLock,
    LazyStatic,
    OnceCell,
}

#[derive(Clone, Debug, PartialEq, Serialize)]
pub enum SanSpec {
    Trim,
    Lower,
    Upper,
    With(FnRef),
}

#[derive(Clone, Debug, PartialEq, Serialize)]
pub enum ValSpec {
    Greater(Bound),
    GreaterEq(Bound),
    Less(Bound),
    LessEq(Bound),
    Finite,
    Predicate(FnRef),
    LenCharMin(Bound),
    LenCharMax(Bound),
    NotEmpty,
    Regex { pattern: String, form: RegexForm },
}

impl ValSpec {
    pub fn kind(&self) -> &'static str {
        match self {
            ValSpec::Greater(_) => "greater",
            ValSpec::GreaterEq(_) => "greater_or_equal",
            ValSpec::Less(_) => "less",
            ValSpec::LessEq(_) => "less_or_equal",
            ValSpec::Finite => "finite",
            ValSpec::Predicate(_) => "predicate",
            ValSpec::LenCharMin(_) => "len_char_min",
            ValSpec::LenCharMax(_) => "len_char_max",
            ValSpec::NotEmpty => "not_empty",
            ValSpec::Regex { .. } => "regex",
        }
    }
    pub fn variant(&self) -> &'static str {
        match self {
            ValSpec::Greater(_) => "GreaterViolated",
            ValSpec::GreaterEq(_) => "GreaterOrEqualViolated",
            ValSpec::Less(_) => "LessViolated",
            ValSpec::LessEq(_) => "LessOrEqualViolated",
            ValSpec::Finite => "FiniteViolated",
            ValSpec::Predicate(_) => "PredicateViolated",
            ValSpec::LenCharMin(_) => "LenCharMinViolated",
            ValSpec::LenCharMax(_) => "LenCharMaxViolated",
            ValSpec::NotEmpty => "NotEmptyViolated",
            ValSpec::Regex { .. } => "RegexViolated",
        }
    }
    pub fn bound(&self) -> Option<&Bound> {
        match self {
            ValSpec::Greater(b)
            | ValSpec::GreaterEq(b)
            | ValSpec::Less(b)
            | ValSpec::LessEq(b)
            | ValSpec::LenCharMin(b)
            | ValSpec::LenCharMax(b) => Some(b),
            _ => None,
        }
    }
}

#[derive(Clone, Debug, PartialEq, Serialize)]
pub enum Vals {
    None,
    Std(Vec<ValSpec>),
    Custom(FnRef),
}

#[derive(Clone, Copy, Debug, PartialEq, Eq, Hash, Serialize, PartialOrd, Ord)]
pub enum Tr {
    Debug,
    Clone,
    Copy,
    PartialEq,
    Eq,
    PartialOrd,
    Ord,
    FromStr,
    AsRef,
    Deref,
    From,
    TryFrom,
    Into,
    Hash,
    Borrow,
    Display,
    Default,
    IntoIterator,
    Serialize,
    Deserialize,
    Arbitrary,
}

impl Tr {
    pub fn name(self) -> &'static str {
        match self {
            Tr::Debug => "Debug",
            Tr::Clone => "Clone",
            Tr::Copy => "Copy",
            Tr::PartialEq => "PartialEq",
            Tr::Eq => "Eq",
            Tr::PartialOrd => "PartialOrd",
            Tr::Ord => "Ord",
            Tr::FromStr => "FromStr",
            Tr::AsRef => "AsRef",
            Tr::Deref => "Deref",
            Tr::From => "From",
            Tr::TryFrom => "TryFrom",
            Tr::Into => "Into",
            Tr::Hash => "Hash",
            Tr::Borrow => "Borrow",
            Tr::Display => "Display",
            Tr::Default => "Default",
            Tr::IntoIterator => "IntoIterator",
            Tr::Serialize => "Serialize",
            Tr::Deserialize => "Deserialize",
            Tr::Arbitrary => "Arbitrary",
        }
    }
}

#[derive(Clone, Debug, PartialEq, Serialize)]
pub struct DefaultSpec {
    pub macro_text: String,
    pub neutral_text: String,
    pub class: String,
}

#[derive(Clone, Copy, Debug, PartialEq, Eq, Serialize)]
pub enum Block {
    Sanitize,
    Validate,
    Derive,
    Default,
    ConstFn,
    NewUnchecked,
}

#[derive(Clone, Debug, PartialEq, Serialize)]
pub struct Layout {
    /// order in which the blocks are written
    pub order: Vec<Block>,
    pub trailing_comma_outer: bool,
    pub trailing_comma_inner: bool,
}

impl Default for Layout {
    fn default() -> Self {
        Layout {
            order: vec![Block::Sanitize, Block::Validate, Block::Derive, Block::Default, Block::ConstFn, Block::NewUnchecked],
            trailing_comma_outer: false,
            trailing_comma_inner: false,
        }
    }
}

#[derive(Clone, Debug, Serialize)]
pub struct Decl {
    /// module name, e.g. "d0001"
    pub id: String,
    pub type_name: String,
    pub inner: Inner,
    pub generic: Generic,
    pub sans: Vec<SanSpec>,
    pub vals: Vals,
    pub derives: Vec<Tr>,
    pub const_fn: bool,
    pub new_unchecked: bool,
    pub default: Option<DefaultSpec>,
    pub layout: Layout,
    /// id of the declaration this one is a twin of (same rules; const_fn or generic variant)
    pub twin_of: Option<String>,
    /// "const_fn" | "generic"
    pub twin_kind: Option<String>,
    /// raw literals to evaluate through `const X = T::try_new(LIT)` (const_fn declarations)
    pub const_evals: Vec<String>,
    pub tags: Vec<String>,
    /// C02: attribute text given literally (overrides the rendering of all blocks)
    pub raw_attr: Option<String>,
    /// C02: an earlier `validate(..)` block written before the main one (the model enforces the union)
    pub pre_vals: Vec<ValSpec>,
    /// C02: an earlier `sanitize(..)` block written before the main one
    pub pre_sans: Vec<SanSpec>,
    /// C02: the glue must not name the error type (whatever error type an accepted unit has is fine)
    pub opaque_err: bool,
    /// a specific type name instead of the generated one (hostile names)
    pub name_override: Option<String>,
}

impl Decl {
    pub fn new(inner: Inner) -> Self {
        Decl {
            id: String::new(),
            type_name: String::new(),
            inner,
            generic: Generic::None,
            sans: vec![],
            vals: Vals::None,
            derives: vec![],
            const_fn: false,
            new_unchecked: false,
            default: None,
            layout: Layout::default(),
            twin_of: None,
            twin_kind: None,
            const_evals: vec![],
            tags: vec![],
            raw_attr: None,
            pre_vals: vec![],
            pre_sans: vec![],
            opaque_err: false,
            name_override: None,
        }
    }
    pub fn has_validation(&self) -> bool {
        !matches!(self.vals, Vals::None)
    }
    pub fn has(&self, t: Tr) -> bool {
        self.derives.contains(&t)
    }
    pub fn std_vals(&self) -> &[ValSpec] {
        match &self.vals {
            Vals::Std(v) => v,
            _ => &[],
        }
    }
    pub fn tag(mut self, t: &str) -> Self {
        self.tags.push(t.to_string());
        self
    }

    /// the concrete newtype as named in the glue
    /// a bound expression that reads run-time state (`less_or_equal = dyn_max()`)
    pub fn dynamic_bound(&self) -> bool {
        self.tags.iter().any(|t| t.starts_with("dynamic-bound"))
    }

    /// `default = next_default()`: an expression whose value changes from call to call
    pub fn stateful_default(&self) -> bool {
        self.has(Tr::Default) && self.default.as_ref().is_some_and(|d| d.class == "stateful")
    }

    pub fn generic_default_history(&self) -> bool {
        self.generic == Generic::T && self.default.is_some() && self.has(Tr::Default)
    }

    pub fn tt(&self) -> String {
        match self.generic {
            Generic::None if self.inner == Inner::CowF32 => format!("{}<'static>", self.type_name),
            Generic::None => self.type_name.clone(),
            Generic::T => format!("{}<Point>", self.type_name),
            Generic::VecT => format!("{}<i32>", self.type_name),
        }
    }

    fn fn_path(&self, f: &FnRef) -> String {
        let m = self.inner.fn_mod();
        let name = if f.form == FnForm::ConstPath { format!("c_{}", f.name) } else { f.name.clone() };
        format!("{m}::{name}")
    }

    /// text of a custom function as handed to the macro; `by_ref` for predicates / validators
    pub fn fn_text(&self, f: &FnRef, by_ref: bool) -> String {
        let p = self.fn_path(f);
        let arg_ty = match (self.inner, by_ref, self.generic) {
            (_, _, Generic::T) => if by_ref { "&T".to_string() } else { "T".to_string() },
            (_, _, Generic::VecT) => if by_ref { "&Vec<T>".to_string() } else { "Vec<T>".to_string() },
            (Inner::Str, true, _) => "&str".to_string(),
            (Inner::CowF32, true, _) => "&Cow<'_, [f32]>".to_string(),
            (Inner::CowF32, false, _) => "Cow<'_, [f32]>".to_string(),
            (i, true, _) => format!("&{}", i.ty()),
            (i, false, _) => i.ty().to_string(),
        };
        match f.form {
            FnForm::Path | FnForm::ConstPath => p,
            FnForm::Closure => format!("|x| {p}(x)"),
            // an elided lifetime in the annotation of a by-value closure parameter is a fresh one, unrelated to
            // the lifetime of the declaration: such a sanitizer does not type-check whatever the macro does
            FnForm::ClosureTyped if self.inner == Inner::CowF32 && !by_ref => format!("|x| {p}(x)"),
            FnForm::ClosureTyped => format!("|x: {arg_ty}| {p}(x)"),
            FnForm::ClosureMut => {
                if by_ref {
                    format!("|x| {{ let r = {p}(x); r }}")
                } else {
                    format!("|mut x| {{ x = {p}(x); x }}")
                }
            }
            FnForm::ClosureMove => format!("move |x| {p}(x)"),
            FnForm::ClosureBlock => format!("|x| {{ {p}(x) }}"),
        }
    }

    /// the attribute arguments, `sanitize(..), validate(..), derive(..), ..`
    pub fn attr_text(&self) -> String {
        if let Some(r) = &self.raw_attr {
            return r.clone();
        }
        let mut parts: Vec<String> = vec![];
        let inner_comma = if self.layout.trailing_comma_inner { "," } else { "" };
        if !self.pre_sans.is_empty() {
            let items: Vec<String> = self
                .pre_sans
                .iter()
                .map(|s| match s {
                    SanSpec::Trim => "trim".to_string(),
                    SanSpec::Lower => "lowercase".to_string(),
                    SanSpec::Upper => "uppercase".to_string(),
                    SanSpec::With(f) => format!("with = {}", self.fn_text(f, false)),
                })
                .collect();
            parts.push(format!("sanitize({})", items.join(", ")));
        }
        if !self.pre_vals.is_empty() {
            let items: Vec<String> = self.pre_vals.iter().map(|v| self.val_text(v)).collect();
            parts.push(format!("validate({})", items.join(", ")));
        }
        for b in &self.layout.order {
            match b {
                Block::Sanitize => {
                    if !self.sans.is_empty() {
                        let items: Vec<String> = self
                            .sans
                            .iter()
                            .map(|s| match s {
                                SanSpec::Trim => "trim".to_string(),
                                SanSpec::Lower => "lowercase".to_string(),
                                SanSpec::Upper => "uppercase".to_string(),
                                SanSpec::With(f) => format!("with = {}", self.fn_text(f, false)),
                            })
                            .collect();
                        parts.push(format!("sanitize({}{inner_comma})", items.join(", ")));
                    }
                }
                Block::Validate => match &self.vals {
                    Vals::None => {}
                    Vals::Std(vs) => {
                        let items: Vec<String> = vs.iter().map(|v| self.val_text(v)).collect();
                        parts.push(format!("validate({}{inner_comma})", items.join(", ")));
                    }
                    Vals::Custom(f) => {
                        parts.push(format!("validate(with = {}, error = CustomErr{inner_comma})", self.fn_text(f, true)));
                    }
                },
                Block::Derive => {
                    if !self.derives.is_empty() {
                        let items: Vec<&str> = self.derives.iter().map(|t| t.name()).collect();
                        parts.push(format!("derive({}{inner_comma})", items.join(", ")));
                    }
                }
                Block::Default => {
                    if let Some(d) = &self.default {
                        parts.push(format!("default = {}", d.macro_text));
                    }
                }
                Block::ConstFn => {
                    if self.const_fn {
                        parts.push("const_fn".to_string());
                    }
                }
                Block::NewUnchecked => {
                    if self.new_unchecked {
                        parts.push("new_unchecked".to_string());
                    }
                }
            }
        }
        let outer_comma = if self.layout.trailing_comma_outer && !parts.is_empty() { "," } else { "" };
        format!("{}{outer_comma}", parts.join(", "))
    }

    fn val_text(&self, v: &ValSpec) -> String {
        match v {
            ValSpec::Greater(b) | ValSpec::GreaterEq(b) | ValSpec::Less(b) | ValSpec::LessEq(b) | ValSpec::LenCharMin(b) | ValSpec::LenCharMax(b) => {
                format!("{} = {}", v.kind(), b.macro_text)
            }
            ValSpec::Finite => "finite".into(),
            ValSpec::NotEmpty => "not_empty".into(),
            ValSpec::Predicate(f) => format!("predicate = {}", self.fn_text(f, true)),
            ValSpec::Regex { pattern, form } => match form {
                RegexForm::Literal => format!("regex = {:?}", pattern),
                _ => "regex = RE0".to_string(),
            },
        }
    }

    /// the struct item following the attribute
    pub fn struct_text(&self) -> String {
        match self.generic {
            Generic::None if self.inner == Inner::CowF32 => format!("pub struct {}<'a>(Cow<'a, [f32]>);", self.type_name),
            Generic::None => format!("pub struct {}({});", self.type_name, self.inner.ty()),
            Generic::T if self.default.is_some() => format!("pub struct {}<T: fpoint::HasX + Default>(T);", self.type_name),
            Generic::T => format!("pub struct {}<T: fpoint::HasX>(T);", self.type_name),
            Generic::VecT => format!("pub struct {}<T: Ord + Clone>(Vec<T>);", self.type_name),
        }
    }

    pub fn decl_text(&self) -> String {
        format!("#[nutype({})]\n{}", self.attr_text(), self.struct_text())
    }

    /// Rust source of the module for this declaration (declaration + model + glue).
    pub fn render_module(&self) -> String {
        let mut o = String::new();
        let ii = self.inner.ty();
        let tt = self.tt();
        let v = self.has_validation();
        let is_str = self.inner == Inner::Str;
        w!(o, "// generated by vmodel — {}", self.tags.join(" "));
        w!(o, "#![allow(unused, non_snake_case, non_upper_case_globals, clippy::all)]");
        w!(o, "use nutype::nutype;");
        w!(o, "use vlib::fns::*;");
        w!(o, "use vlib::types::*;");
        w!(o, "use vlib::types::Val as MVal;");
        w!(o, "use vlib::types::Vals as MVals;");
        if self.inner == Inner::CowF32 {
            w!(o, "use std::borrow::Cow;");
        }
        // constants available to bound spellings
        if let Some(p) = self.const_prelude() {
            o.push_str(&p);
        }
        // neutral consts: rustc computes the denoted values
        let mut bi = 0;
        for val in self.pre_vals.iter().chain(self.std_vals().iter()) {
            if let Some(b) = val.bound() {
                let bty = if is_str { "usize" } else { ii };
                w!(o, "pub const B{bi}: {bty} = {};", b.neutral_text);
                bi += 1;
            }
        }
        // regex statics
        for val in self.std_vals() {
            if let ValSpec::Regex { pattern, form } = val {
                match form {
                    RegexForm::Literal => {}
                    RegexForm::LazyLock => w!(
                        o,
                        "static RE0: ::std::sync::LazyLock<::regex::Regex> = ::std::sync::LazyLock::new(|| ::regex::Regex::new({pattern:?}).unwrap());"
                    ),
                    RegexForm::LazyStatic => w!(o, "::lazy_static::lazy_static! {{ static ref RE0: ::regex::Regex = ::regex::Regex::new({pattern:?}).unwrap(); }}"),
                    RegexForm::OnceCell => w!(
                        o,
                        "static RE0: ::once_cell::sync::Lazy<::regex::Regex> = ::once_cell::sync::Lazy::new(|| ::regex::Regex::new({pattern:?}).unwrap());"
                    ),
                }
            }
        }
        if self.dynamic_bound() {
            w!(o, "static DLIM: ::core::sync::atomic::AtomicI32 = ::core::sync::atomic::AtomicI32::new(10);");
            w!(o, "pub fn dyn_max() -> i32 {{ DLIM.load(::core::sync::atomic::Ordering::SeqCst) }}");
        }
        if self.stateful_default() {
            // the default expression reads a per-declaration counter: call i evaluates to default_at(i)
            let body = &self.default.as_ref().unwrap().neutral_text;
            w!(o, "static DCTR: ::core::sync::atomic::AtomicUsize = ::core::sync::atomic::AtomicUsize::new(0);");
            w!(o, "pub fn default_at(i: usize) -> {ii} {{ {body} }}");
            w!(o, "pub fn next_default() -> {ii} {{ default_at(DCTR.fetch_add(1, ::core::sync::atomic::Ordering::SeqCst)) }}");
        }
        w!(o, "");
        w!(o, "{}", self.decl_text());
        w!(o, "");
        w!(o, "pub type TT = {tt};");
        w!(o, "pub type II = {ii};");
        w!(o, "pub const DECL: &str = {:?};", self.decl_text());
        if self.has(Tr::FromStr) && !is_str {
            let gen = match self.generic {
                Generic::None => "",
                Generic::T => "<Point>",
                Generic::VecT => "<i32>",
            };
            w!(o, "pub type PE = {}ParseError{gen};", self.type_name);
        }
        // error mapping, wildcard-free: compiles iff the enum has exactly the declared variants
        if self.opaque_err {
            w!(o, "fn err<E>(_e: E) -> ErrR {{ ErrR::Ix(0) }}");
            w!(o, "fn mk(raw: II) -> Option<TT> {{ TT::try_new(raw).ok() }}");
        } else {
        match &self.vals {
            Vals::Std(vs) => {
                let en = format!("{}Error", self.type_name);
                w!(o, "fn err(e: {en}) -> ErrR {{ match e {{");
                for (i, val) in vs.iter().enumerate() {
                    w!(o, "    {en}::{} => ErrR::Ix({}),", val.variant(), i + self.pre_vals.len());
                }
                w!(o, "}} }}");
                w!(o, "fn err_from_ix(i: usize) -> Option<{en}> {{ match i {{");
                for (i, val) in vs.iter().enumerate() {
                    w!(o, "    {i} => Some({en}::{}),", val.variant());
                }
                w!(o, "    _ => None,\n}} }}");
                w!(o, "fn mk(raw: II) -> Option<TT> {{ TT::try_new(raw).ok() }}");
            }
            Vals::Custom(_) => {
                w!(o, "fn err(e: CustomErr) -> ErrR {{ ErrR::Custom(e.code) }}");
                w!(o, "fn err_from_ix(_i: usize) -> Option<CustomErr> {{ None }}");
                w!(o, "fn mk(raw: II) -> Option<TT> {{ TT::try_new(raw).ok() }}");
            }
            Vals::None => {
                w!(o, "fn mk(raw: II) -> Option<TT> {{ Some(TT::new(raw)) }}");
            }
        }
        }
        // reference newtype with serde's own derive (differential partner for C04/C10)
        if self.has(Tr::Serialize) || self.has(Tr::Deserialize) {
            w!(o, "#[derive(::serde::Serialize, ::serde::Deserialize)]");
            w!(o, "#[serde(rename = {:?})]", self.type_name);
            w!(o, "pub struct RefNt(pub II);");
        }
        // model
        let m = self.inner.fn_mod();
        w!(o, "static MODEL: Model<II> = Model {{");
        w!(o, "    sans: &[");
        for s in self.pre_sans.iter().chain(self.sans.iter()) {
            match s {
                SanSpec::Trim => w!(o, "        San::Trim,"),
                SanSpec::Lower => w!(o, "        San::Lower,"),
                SanSpec::Upper => w!(o, "        San::Upper,"),
                SanSpec::With(f) => {
                    let base = f.name.trim_start_matches("g_");
                    w!(o, "        San::With {{ name: {:?}, f: {m}::{base}, idempotent: {} }},", f.name, f.idempotent)
                }
            }
        }
        w!(o, "    ],");
        match &self.vals {
            Vals::None => w!(o, "    vals: MVals::None,"),
            Vals::Custom(f) => w!(o, "    vals: MVals::Custom {{ name: {:?}, f: {m}::m_{} }},", f.name, f.name),
            Vals::Std(vs) => {
                w!(o, "    vals: MVals::Std(&[");
                let mut bi = 0;
                for val in self.pre_vals.iter().chain(vs.iter()) {
                    match val {
                        ValSpec::Greater(_) => {
                            w!(o, "        MVal::Greater(B{bi}),");
                            bi += 1;
                        }
                        ValSpec::GreaterEq(_) => {
                            w!(o, "        MVal::GreaterEq(B{bi}),");
                            bi += 1;
                        }
                        ValSpec::Less(_) => {
                            w!(o, "        MVal::Less(B{bi}),");
                            bi += 1;
                        }
                        ValSpec::LessEq(_) => {
                            w!(o, "        MVal::LessEq(B{bi}),");
                            bi += 1;
                        }
                        ValSpec::LenCharMin(_) => {
                            w!(o, "        MVal::LenCharMin(B{bi}),");
                            bi += 1;
                        }
                        ValSpec::LenCharMax(_) => {
                            w!(o, "        MVal::LenCharMax(B{bi}),");
                            bi += 1;
                        }
                        ValSpec::Finite => w!(o, "        MVal::Finite,"),
                        ValSpec::NotEmpty => w!(o, "        MVal::NotEmpty,"),
                        ValSpec::Predicate(f) => {
                            let base = f.name.trim_start_matches("g_");
                            let mf = if is_str { format!("m_{base}") } else { base.to_string() };
                            w!(o, "        MVal::Predicate {{ name: {:?}, f: {m}::{mf} }},", f.name)
                        }
                        ValSpec::Regex { pattern, .. } => w!(o, "        MVal::Regex({pattern:?}),"),
                    }
                }
                w!(o, "    ]),");
            }
        }
        match &self.default {
            Some(_) if self.stateful_default() => w!(o, "    default_raw: None,"),
            Some(d) if is_str => w!(o, "    default_raw: Some(|| {{ let d: II = ({}).into(); d }}),", d.neutral_text),
            Some(d) => w!(o, "    default_raw: Some(|| {{ let d: II = {}; d }}),", d.neutral_text),
            None => w!(o, "    default_raw: None,"),
        }
        w!(o, "}};");
        // const evaluation
        if self.dynamic_bound() && self.has(Tr::Arbitrary) {
            // the limit the bound expression reads is changed between rounds of generation; after every change the
            // generator has to produce exactly the values the constructor accepts now
            w!(o, "fn arb_history() -> Vec<(String, bool)> {{");
            w!(o, "    let produce = || {{");
            w!(o, "        let mut s = ::std::collections::BTreeSet::new();");
            w!(o, "        for a in 0..=255u8 {{ for tail in [vec![], vec![0u8], vec![255u8, 1]] {{");
            w!(o, "            let mut b = vec![a]; b.extend(tail);");
            w!(o, "            if let Ok(v) = vlib::glue::run_arbitrary::<TT, II>(&b, |t| t.into_inner()) {{ s.insert(v); }}");
            w!(o, "        }} }}");
            w!(o, "        s");
            w!(o, "    }};");
            w!(o, "    let mut out = vec![];");
            w!(o, "    for lim in [10i32, 20, 5, 10] {{");
            w!(o, "        DLIM.store(lim, ::core::sync::atomic::Ordering::SeqCst);");
            w!(o, "        let want: ::std::collections::BTreeSet<II> = (0..=lim).collect();");
            w!(o, "        let got = vlib::drive::no_panic(produce);");
            w!(o, "        out.push((format!(\"limit={{lim}}\"), got.map(|g| g == want).unwrap_or(false)));");
            w!(o, "    }}");
            w!(o, "    DLIM.store(10, ::core::sync::atomic::Ordering::SeqCst);");
            w!(o, "    out");
            w!(o, "}}");
        }
        if self.stateful_default() {
            // Default called six times in a row; call i must behave as the constructor does on default_at(i)
            w!(o, "fn default_history() -> Vec<(String, bool, Option<bool>)> {{");
            w!(o, "    DCTR.store(0, ::core::sync::atomic::Ordering::SeqCst);");
            w!(o, "    (0..6usize).map(|i| {{");
            w!(o, "        let exp = mk(default_at(i)).map(|t| t.into_inner());");
            w!(o, "        let got = vlib::drive::no_panic(|| <TT as Default>::default().into_inner());");
            w!(o, "        (format!(\"call#{{i}}\"), exp.is_some(), got.ok().map(|g| exp.as_ref() == Some(&g)))");
            w!(o, "    }}).collect()");
            w!(o, "}}");
        }
        if self.generic_default_history() {
            // Default through two instantiations of one generic declaration, interleaved: the first call is
            // at the instantiation whose default is valid
            let n = &self.type_name;
            w!(o, "fn default_history() -> Vec<(String, bool, Option<bool>)> {{");
            w!(o, "    let mut out = Vec::new();");
            w!(o, "    macro_rules! step {{ ($ty:ty, $label:expr) => {{{{");
            w!(o, "        let raw: $ty = <$ty as Default>::default();");
            if v {
                w!(o, "        let exp = {n}::<$ty>::try_new(raw).ok().map(|v| v.into_inner());");
            } else {
                w!(o, "        let exp = Some({n}::<$ty>::new(raw).into_inner());");
            }
            w!(o, "        let got = vlib::drive::no_panic(|| <{n}<$ty> as Default>::default().into_inner());");
            w!(o, "        out.push(($label.to_string(), exp.is_some(), got.ok().map(|g| exp.as_ref() == Some(&g))));");
            w!(o, "    }}}} }}");
            w!(o, "    step!(fpoint::PosPoint, \"PosPoint\"); step!(Point, \"Point\"); step!(fpoint::PosPoint, \"PosPoint\"); step!(Point, \"Point\");");
            w!(o, "    out");
            w!(o, "}}");
        }
        if !self.const_evals.is_empty() {
            for (i, lit) in self.const_evals.iter().enumerate() {
                if v {
                    w!(o, "const CE{i}: Result<II, ErrR> = match TT::try_new({lit}) {{ Ok(v) => Ok(v.into_inner()), Err(e) => Err(const_err(e)) }};");
                } else {
                    w!(o, "const CE{i}: Result<II, ErrR> = Ok(TT::new({lit}).into_inner());");
                }
            }
            if v {
                // const version of `err`
                match &self.vals {
                    Vals::Std(vs) => {
                        let en = format!("{}Error", self.type_name);
                        w!(o, "const fn const_err(e: {en}) -> ErrR {{ match e {{");
                        for (i, val) in vs.iter().enumerate() {
                            w!(o, "    {en}::{} => ErrR::Ix({i}),", val.variant());
                        }
                        w!(o, "}} }}");
                    }
                    _ => w!(o, "const fn const_err(e: CustomErr) -> ErrR {{ ErrR::Custom(e.code) }}"),
                }
            }
            w!(o, "fn const_evals() -> Vec<(II, Result<II, ErrR>)> {{ vec![");
            for (i, lit) in self.const_evals.iter().enumerate() {
                w!(o, "    ({lit}, CE{i}),");
            }
            w!(o, "] }}");
        }
        // the table
        w!(o, "pub static VT: Vt<II> = Vt {{");
        w!(o, "    tags: &[{}],", self.tags.iter().map(|t| format!("{t:?}")).collect::<Vec<_>>().join(", "));
        w!(o, "    derives: &[{}],", self.derives.iter().map(|t| format!("{:?}", t.name())).collect::<Vec<_>>().join(", "));
        if let Some(t) = &self.twin_of {
            w!(o, "    twin: Some(&super::{t}::VT),");
        }
        let sfx = if v { "v" } else { "n" };
        if self.has(Tr::TryFrom) {
            w!(o, "    try_from: vlib::g_try_from_{sfx}!(),");
            if is_str {
                w!(o, "    try_from_str: vlib::g_try_from_str_{sfx}!(),");
            }
        }
        if self.has(Tr::From) {
            w!(o, "    from: vlib::g_from!(),");
            if is_str {
                w!(o, "    from_str_ref: vlib::g_from_str_ref!(),");
            }
        }
        if self.has(Tr::FromStr) {
            if is_str {
                w!(o, "    from_str_s: vlib::g_from_str_s_{sfx}!(),");
            } else {
                w!(o, "    from_str: vlib::g_from_str_{sfx}!(),");
                w!(o, "    from_str_err_text: vlib::g_from_str_err_text!(),");
            }
        }
        if self.has(Tr::Default) && self.default.is_some() && !self.stateful_default() {
            w!(o, "    default: vlib::g_default!(),");
        }
        if self.generic_default_history() || self.stateful_default() {
            w!(o, "    default_history: Some(default_history),");
        }
        if self.has(Tr::Deserialize) {
            w!(o, "    de: vlib::g_de!(),");
            w!(o, "    de_in_place: vlib::g_de_in_place!(),");
            if matches!(self.inner, Inner::Int(_) | Inner::F32 | Inner::F64 | Inner::Str | Inner::VecI32 | Inner::VecU8) {
                w!(o, "    de_value: vlib::g_de_value!(),");
            }
            w!(o, "    de_ref: Some(|f: Fmt, p: Pos, b: &[u8]| vlib::glue::de_any::<RefNt, II>(f, p, b, |r| r.0)),");
            if self.has(Tr::Ord) {
                w!(o, "    de_key: vlib::g_de_key!(),");
            }
        }
        if self.has(Tr::Serialize) {
            w!(o, "    ser: vlib::g_ser!(),");
            w!(o, "    ser_ref: Some(|raw: II, f: Fmt| vlib::glue::enc(f, &RefNt(raw))),");
        }
        if self.has(Tr::Arbitrary) {
            w!(o, "    arbitrary: vlib::g_arbitrary!(),");
        }
        if self.dynamic_bound() && self.has(Tr::Arbitrary) {
            w!(o, "    arb_history: Some(arb_history),");
        }
        if self.has(Tr::Display) {
            w!(o, "    display: vlib::g_display!(),");
        }
        if self.has(Tr::AsRef) {
            w!(o, "    as_ref: vlib::g_as_ref{}!(),", if is_str { "_str" } else { "" });
        }
        if self.has(Tr::Deref) {
            w!(o, "    deref: vlib::g_deref!(),");
        }
        if self.has(Tr::Borrow) {
            if is_str {
                w!(o, "    borrow: vlib::g_borrow_str!(),");
                w!(o, "    borrow2: vlib::g_borrow!(),");
            } else {
                w!(o, "    borrow: vlib::g_borrow!(),");
            }
        }
        if self.has(Tr::Into) {
            w!(o, "    into: vlib::g_into!(),");
        }
        if self.has(Tr::Clone) {
            w!(o, "    clone: vlib::g_clone!(),");
        }
        if self.has(Tr::Copy) {
            w!(o, "    copy: vlib::g_copy!(),");
        }
        if self.has(Tr::PartialEq) {
            w!(o, "    eq: vlib::g_eq!(),");
            w!(o, "    eq_self: vlib::g_eq_self!(),");
        }
        if self.has(Tr::PartialOrd) && self.has(Tr::PartialEq) {
            w!(o, "    partial_cmp: vlib::g_partial_cmp!(),");
            w!(o, "    partial_cmp_self: vlib::g_partial_cmp_self!(),");
            w!(o, "    cmp_ops: vlib::g_cmp_ops!(),");
        }
        if self.has(Tr::Ord) {
            w!(o, "    cmp: vlib::g_cmp!(),");
            w!(o, "    ord_minmax: vlib::g_ord_minmax!(),");
            w!(o, "    sort: vlib::g_sort!(),");
            w!(o, "    btree: vlib::g_btree!(),");
        }
        if self.has(Tr::Hash) {
            w!(o, "    hash: vlib::g_hash!(),");
            if self.has(Tr::Borrow) && self.has(Tr::Eq) {
                w!(o, "    hashmap_borrow: vlib::g_hashmap_borrow{}!(),", if is_str { "_str" } else { "" });
            }
        }
        if self.has(Tr::IntoIterator) {
            w!(o, "    into_iter: vlib::g_into_iter!(),");
            w!(o, "    iter_ref: vlib::g_iter_ref!(),");
        }
        if matches!(self.vals, Vals::Std(_)) && !self.opaque_err {
            w!(o, "    err_text: vlib::g_err_text!(),");
        }
        if !self.const_evals.is_empty() {
            w!(o, "    const_evals: Some(const_evals),");
        }
        let ctor = if v { "vlib::g_ctor_try!()" } else { "vlib::g_ctor_new!()" };
        w!(o, "    ..Vt::none({:?}, {:?}, DECL, &MODEL, {ctor})", self.id, self.type_name);
        w!(o, "}};");
        o
    }

    /// constants that bound spellings may reference; typed by the bound type
    fn const_prelude(&self) -> Option<String> {
        let bty = match self.inner {
            Inner::Str => "usize",
            Inner::Int(t) => t.name(),
            Inner::F32 => "f32",
            Inner::F64 => "f64",
            _ => return None,
        };
        let (ka, kb, km) = if self.inner.is_float() { ("5.0", "100.0", "3.0") } else { ("5", "100", "3") };
        let mut o = String::new();
        w!(o, "pub const KA: {bty} = {ka};");
        w!(o, "pub const KB: {bty} = {kb};");
        w!(o, "pub const ONE: {bty} = {};", if self.inner.is_float() { "1.0" } else { "1" });
        w!(o, "pub mod k {{ pub const KM: {bty} = {km}; }}");
        w!(o, "pub const fn kmax() -> {bty} {{ {} }}", if self.inner.is_float() { "42.0" } else { "42" });
        // user constants and functions with the names a code generator is most tempted to use for its own
        // locals: a bound expression mentioning them must keep meaning the user's item
        let (v10, v100, v90) = if self.inner.is_float() { ("10.0", "100.0", "90.0") } else { ("10", "100", "90") };
        w!(o, "pub const MIN: {bty} = {v10};");
        w!(o, "pub const MAX: {bty} = {v100};");
        w!(o, "pub const LOWER: {bty} = {v10};");
        w!(o, "pub const UPPER: {bty} = {v100};");
        w!(o, "pub const RANGE: {bty} = {v90};");
        w!(o, "pub const fn lower() -> {bty} {{ {v10} }}");
        w!(o, "pub const fn upper() -> {bty} {{ {v100} }}");
        // constants of *another* type than the bound type (a bound spelled with them cannot be honoured)
        w!(o, "pub const WIDE: i64 = 300;");
        w!(o, "pub const WIDEF: f64 = 1e300;");
        Some(o)
    }
}


/// `mod` list and registry for a corpus crate's `main.rs`
pub fn render_main(decls: &[Decl]) -> String {
    let mut o = String::new();
    w!(o, "// generated by vmodel");
    w!(o, "#![allow(unused)]");
    for d in decls {
        w!(o, "mod {};", d.id);
    }
    w!(o, "pub static REG: &[vlib::types::Entry] = &[");
    for d in decls {
        w!(o, "    vlib::types::Entry::{}(&{}::VT),", d.inner.entry_variant(), d.id);
    }
    w!(o, "];");
    w!(o, "fn main() {{ vlib::run::main(REG) }}");
    o
}
