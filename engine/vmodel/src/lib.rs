pub mod catalogue;
pub mod decl;
pub use decl::*;
