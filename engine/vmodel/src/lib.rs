pub mod c02;
pub mod catalogue;
pub mod cf;
pub mod decl;
pub mod random;
pub use decl::*;
