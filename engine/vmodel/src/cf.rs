//! Compile-verdict units (DESIGN §6): one module file per unit; the system under test
//! is rustc running the macro. Used by C05 (bypass attempts + controls), C08
//! (accept/reject predicate) and C15 (no_std).

use crate::catalogue;
use crate::decl::*;
use serde::Serialize;

#[derive(Clone, Copy, Debug, PartialEq, Eq, Serialize)]
pub enum Expect {
    Accept,
    Reject,
    /// outside the documented grammar / statement: recorded, never judged
    NoOpinion,
}

#[derive(Clone, Debug, Serialize)]
pub struct Unit {
    pub id: String,
    pub class: String,
    /// feature set of nutype this unit is built with (crate it goes to)
    pub features: Vec<String>,
    pub source: String,
    pub expect: Expect,
    /// rustc error codes / message fragments one of which a rejection must carry (empty = any)
    pub expect_errors: Vec<String>,
    /// generated `#[test]`s (suffix of the libtest name) that must FAIL
    pub tests_must_fail: Vec<String>,
    /// generated tests that must pass
    pub tests_must_pass: Vec<String>,
    /// the declaration text, for evidence samples
    pub decl: String,
    /// non-trivial by the property's rule
    pub nontrivial: bool,
}

/// local copies of the custom-function library, so that units do not depend on vlib
pub fn local_fns(inner: Inner, no_std: bool) -> String {
    let _ = no_std;
    match inner {
        Inner::Int(t) => {
            let n = t.name();
            let (lo, hi) = if t.signed() { ("-5", "100") } else { ("2", "100") };
            format!(
                r#"pub mod f{n} {{
    use super::CustomErr;
    pub fn s_clamp(x: {n}) -> {n} {{ x.clamp({lo}, {hi}) }}
    pub const fn c_s_clamp(x: {n}) -> {n} {{ if x < {lo} {{ {lo} }} else if x > {hi} {{ {hi} }} else {{ x }} }}
    pub fn s_wadd1(x: {n}) -> {n} {{ x.wrapping_add(1) }}
    pub const fn c_s_wadd1(x: {n}) -> {n} {{ x.wrapping_add(1) }}
    pub fn s_half(x: {n}) -> {n} {{ x / 2 }}
    pub fn s_even(x: {n}) -> {n} {{ x & !1 }}
    pub fn p_even(x: &{n}) -> bool {{ *x % 2 == 0 }}
    pub const fn c_p_even(x: &{n}) -> bool {{ *x % 2 == 0 }}
    pub fn p_not7(x: &{n}) -> bool {{ *x != 7 }}
    pub fn v_small(x: &{n}) -> Result<(), CustomErr> {{ if *x > 10 {{ Err(CustomErr {{ code: 1 }}) }} else {{ Ok(()) }} }}
    pub const fn c_v_small(x: &{n}) -> Result<(), CustomErr> {{ if *x > 10 {{ Err(CustomErr {{ code: 1 }}) }} else {{ Ok(()) }} }}
}}
"#
            )
        }
        Inner::F32 | Inner::F64 => {
            let n = inner.ty();
            format!(
                r#"pub mod f{n} {{
    use super::CustomErr;
    pub fn s_clamp(x: {n}) -> {n} {{ x.clamp(-5.0, 100.0) }}
    pub const fn c_s_clamp(x: {n}) -> {n} {{ if x < -5.0 {{ -5.0 }} else if x > 100.0 {{ 100.0 }} else {{ x }} }}
    pub fn s_nan0(x: {n}) -> {n} {{ if x.is_nan() {{ 0.0 }} else {{ x }} }}
    pub fn s_neg(x: {n}) -> {n} {{ -x }}
    pub fn s_add1(x: {n}) -> {n} {{ x + 1.0 }}
    pub fn s_recip(x: {n}) -> {n} {{ 1.0 / x }}
    pub fn s_quad(x: {n}) -> {n} {{ x * 4.0 }}
    pub fn s_big2inf(x: {n}) -> {n} {{ if x > 1e30 {{ {n}::INFINITY }} else if x < -1e30 {{ {n}::NEG_INFINITY }} else {{ x }} }}
    pub fn s_abs(x: {n}) -> {n} {{ if x < 0.0 {{ -x }} else {{ x }} }}
    pub fn p_not50(x: &{n}) -> bool {{ *x != 50.0 }}
    pub const fn c_p_not50(x: &{n}) -> bool {{ *x != 50.0 }}
    pub fn p_integral(x: &{n}) -> bool {{ *x == (*x as i64) as {n} }}
    pub fn v_small(x: &{n}) -> Result<(), CustomErr> {{ if *x < 10.0 {{ Ok(()) }} else {{ Err(CustomErr {{ code: 1 }}) }} }}
}}
"#
            )
        }
        Inner::Str => r#"pub mod fstr {
    use super::CustomErr;
    pub fn s_trunc5(s: String) -> String { s.chars().take(5).collect() }
    pub fn s_appendx(mut s: String) -> String { s.push('X'); s }
    pub fn s_padsp(s: String) -> String { format!(" {s} ") }
    pub fn s_repl(s: String) -> String { s.replace('a', "b") }
    pub fn s_at2sp(s: String) -> String { s.replace('@', " ") }
    pub fn s_bang2z(s: String) -> String { s.replace('!', "Z") }
    pub fn s_prepz(s: String) -> String { format!("Z{s}") }
    pub fn p_has_at(s: &str) -> bool { s.contains('@') }
    pub fn p_ascii(s: &str) -> bool { s.is_ascii() }
    pub fn p_no_a(s: &str) -> bool { !s.contains('a') }
    pub fn v_nobang(s: &str) -> Result<(), CustomErr> { if s.contains('!') { Err(CustomErr { code: 1 }) } else { Ok(()) } }
}
"#
        .to_string(),
        Inner::VecI32 => r#"pub mod fvec {
    extern crate alloc;
    use alloc::vec::Vec;
    use super::CustomErr;
    pub fn s_sort(mut v: Vec<i32>) -> Vec<i32> { v.sort(); v }
    pub fn s_dedup(mut v: Vec<i32>) -> Vec<i32> { v.sort(); v.dedup(); v }
    pub fn s_push0(mut v: Vec<i32>) -> Vec<i32> { v.push(0); v }
    pub fn s_take3(mut v: Vec<i32>) -> Vec<i32> { v.truncate(3); v }
    pub fn p_nonempty(v: &Vec<i32>) -> bool { !v.is_empty() }
    pub fn p_short(v: &Vec<i32>) -> bool { v.len() <= 3 }
    pub fn v_sum(v: &Vec<i32>) -> Result<(), CustomErr> { if v.len() > 100 { Err(CustomErr { code: 1 }) } else { Ok(()) } }
    pub fn g_s_sort<T: Ord>(mut v: Vec<T>) -> Vec<T> { v.sort(); v }
    pub fn g_s_dedup<T: Ord>(mut v: Vec<T>) -> Vec<T> { v.sort(); v.dedup(); v }
    pub fn g_s_take3<T>(mut v: Vec<T>) -> Vec<T> { v.truncate(3); v }
    pub fn g_p_nonempty<T>(v: &Vec<T>) -> bool { !v.is_empty() }
    pub fn g_p_short<T>(v: &Vec<T>) -> bool { v.len() <= 3 }
}
"#
        .to_string(),
        Inner::VecU8 => r#"pub mod fbytes {
    extern crate alloc;
    use alloc::vec::Vec;
    use super::CustomErr;
    pub fn s_sort(mut v: Vec<u8>) -> Vec<u8> { v.sort(); v }
    pub fn s_take3(mut v: Vec<u8>) -> Vec<u8> { v.truncate(3); v }
    pub fn s_push0(mut v: Vec<u8>) -> Vec<u8> { v.push(0); v }
    pub fn p_nonempty(v: &Vec<u8>) -> bool { !v.is_empty() }
    pub fn p_short(v: &Vec<u8>) -> bool { v.len() <= 3 }
    pub fn p_utf8(v: &Vec<u8>) -> bool { core::str::from_utf8(v).is_ok() }
    pub fn v_sum(v: &Vec<u8>) -> Result<(), CustomErr> { if v.len() > 100 { Err(CustomErr { code: 1 }) } else { Ok(()) } }
}
"#
        .to_string(),
        Inner::CowF32 => r#"pub mod fcow {
    extern crate alloc;
    use alloc::borrow::Cow;
    use alloc::vec::Vec;
    use super::CustomErr;
    pub fn s_abs_all<'a>(v: Cow<'a, [f32]>) -> Cow<'a, [f32]> { if v.iter().all(|x| !x.is_sign_negative()) { v } else { Cow::Owned(v.iter().map(|x| if x.is_sign_negative() { -*x } else { *x }).collect::<Vec<f32>>()) } }
    pub fn s_take3<'a>(v: Cow<'a, [f32]>) -> Cow<'a, [f32]> { match v { Cow::Borrowed(b) => Cow::Borrowed(&b[..if b.len() < 3 { b.len() } else { 3 }]), Cow::Owned(mut o) => { o.truncate(3); Cow::Owned(o) } } }
    pub fn s_push0<'a>(v: Cow<'a, [f32]>) -> Cow<'a, [f32]> { let mut o = v.into_owned(); o.push(0.0); Cow::Owned(o) }
    pub fn p_nonempty(v: &Cow<'_, [f32]>) -> bool { !v.is_empty() }
    pub fn p_short(v: &Cow<'_, [f32]>) -> bool { v.len() <= 3 }
    pub fn p_no_nan(v: &Cow<'_, [f32]>) -> bool { v.iter().all(|x| !x.is_nan()) }
    pub fn v_sum(v: &Cow<'_, [f32]>) -> Result<(), CustomErr> { if v.len() > 100 { Err(CustomErr { code: 1 }) } else { Ok(()) } }
}
"#
        .to_string(),
        Inner::Point => r#"pub mod fpoint {
    use super::*;
    pub fn s_abs(p: Point) -> Point { Point { x: p.x.saturating_abs(), y: p.y.saturating_abs() } }
    pub const fn c_s_abs(p: Point) -> Point { Point { x: p.x.saturating_abs(), y: p.y.saturating_abs() } }
    pub fn s_swap(p: Point) -> Point { Point { x: p.y, y: p.x.wrapping_add(1) } }
    pub fn p_xpos(p: &Point) -> bool { p.x > 0 }
    pub const fn c_p_xpos(p: &Point) -> bool { p.x > 0 }
    pub fn p_diag(p: &Point) -> bool { p.x != p.y }
    pub fn v_far(p: &Point) -> Result<(), CustomErr> { if p.x > 100 { Err(CustomErr { code: 1 }) } else { Ok(()) } }
    pub trait HasX { fn x_(&self) -> i16; }
    impl HasX for Point { fn x_(&self) -> i16 { self.x } }
    pub fn g_p_xpos<T: HasX>(p: &T) -> bool { p.x_() > 0 }
}
"#
        .to_string(),
    }
}

/// prelude shared by all units of a crate (emitted once in lib.rs as `pub mod prelude`)
pub fn crate_prelude(no_std: bool, serde: bool, arbitrary: bool) -> String {
    let mut o = String::new();
    o.push_str("#[derive(Debug, Clone, PartialEq, Eq)]\npub struct CustomErr { pub code: i64 }\n");
    o.push_str("impl ::core::fmt::Display for CustomErr { fn fmt(&self, f: &mut ::core::fmt::Formatter<'_>) -> ::core::fmt::Result { write!(f, \"custom error {}\", self.code) } }\n");
    if !no_std {
        o.push_str("impl ::std::error::Error for CustomErr {}\n");
    }
    o.push_str("#[derive(Clone, Copy, Debug, PartialEq, Eq, PartialOrd, Ord, Hash, Default)]\n");
    if serde {
        o.push_str("#[derive(::serde::Serialize, ::serde::Deserialize)]\n");
    }
    o.push_str("pub struct Point { pub x: i16, pub y: i16 }\n");
    o.push_str("impl ::core::fmt::Display for Point { fn fmt(&self, f: &mut ::core::fmt::Formatter<'_>) -> ::core::fmt::Result { write!(f, \"{};{}\", self.x, self.y) } }\n");
    o.push_str("#[derive(Debug, Clone, PartialEq, Eq)]\npub struct PointParseError;\n");
    o.push_str("impl Point { pub fn from_str(s: &str) -> Result<Point, PointParseError> { let mut it = s.split(','); let x = it.next().ok_or(PointParseError)?.parse::<i16>().map_err(|_| PointParseError)?; let y = it.next().ok_or(PointParseError)?.parse::<i16>().map_err(|_| PointParseError)?; Ok(Point { x, y }) } }\n");
    o.push_str("impl ::core::str::FromStr for Point { type Err = PointParseError; fn from_str(s: &str) -> Result<Self, Self::Err> { let mut it = s.split(';'); let x = it.next().ok_or(PointParseError)?.parse::<i16>().map_err(|_| PointParseError)?; let y = it.next().ok_or(PointParseError)?.parse::<i16>().map_err(|_| PointParseError)?; Ok(Point { x, y }) } }\n");
    if arbitrary {
        o.push_str("impl<'a> ::arbitrary::Arbitrary<'a> for Point { fn arbitrary(u: &mut ::arbitrary::Unstructured<'a>) -> ::arbitrary::Result<Self> { Ok(Point { x: u.arbitrary()?, y: u.arbitrary()? }) } }\n");
    }
    o
}

/// Source of a unit holding one declaration (no vlib): prelude items, local functions, constants, the item.
pub fn unit_source(d: &Decl, no_std: bool, extra: &str) -> String {
    let mut o = String::new();
    o.push_str("#![allow(unused, non_snake_case, non_upper_case_globals, non_camel_case_types, clippy::all)]\n");
    o.push_str("use nutype::nutype;\nuse crate::prelude::*;\n");
    if d.inner == Inner::CowF32 {
        // the declaration itself names `Cow` (and `Vec` in some default expressions)
        o.push_str("use alloc::borrow::Cow;\n");
    }
    if no_std && matches!(d.inner, Inner::VecI32 | Inner::VecU8) {
        // only what a no_std user must import to *write* the declaration; no `format!`, `vec!`, `String`
        // in scope, so a generated use of those prelude items does not resolve by accident
        o.push_str("use alloc::vec::Vec;\n");
    }
    o.push_str(&local_fns(d.inner, no_std));
    o.push_str(&const_prelude(d.inner));
    for val in d.std_vals() {
        if let ValSpec::Regex { pattern, form } = val {
            match form {
                RegexForm::Literal => {}
                RegexForm::LazyLock => o.push_str(&format!(
                    "static RE0: ::std::sync::LazyLock<::regex::Regex> = ::std::sync::LazyLock::new(|| ::regex::Regex::new({pattern:?}).unwrap());\n"
                )),
                RegexForm::LazyStatic => o.push_str(&format!("::lazy_static::lazy_static! {{ static ref RE0: ::regex::Regex = ::regex::Regex::new({pattern:?}).unwrap(); }}\n")),
                RegexForm::OnceCell => o.push_str(&format!(
                    "static RE0: ::once_cell::sync::Lazy<::regex::Regex> = ::once_cell::sync::Lazy::new(|| ::regex::Regex::new({pattern:?}).unwrap());\n"
                )),
            }
        }
    }
    if d.dynamic_bound() {
        o.push_str("static DLIM: ::core::sync::atomic::AtomicI32 = ::core::sync::atomic::AtomicI32::new(10);\npub fn dyn_max() -> i32 { DLIM.load(::core::sync::atomic::Ordering::SeqCst) }\n");
    }
    if d.stateful_default() {
        let body = &d.default.as_ref().unwrap().neutral_text;
        let ii = d.inner.ty();
        o.push_str("static DCTR: ::core::sync::atomic::AtomicUsize = ::core::sync::atomic::AtomicUsize::new(0);\n");
        o.push_str(&format!("pub fn default_at(i: usize) -> {ii} {{ {body} }}\n"));
        o.push_str(&format!("pub fn next_default() -> {ii} {{ default_at(DCTR.fetch_add(1, ::core::sync::atomic::Ordering::SeqCst)) }}\n"));
    }
    let decl = if no_std { d.decl_text().replace("vec![", "alloc::vec![").replace("Vec::new()", "alloc::vec::Vec::new()") } else { d.decl_text() };
    o.push_str(&decl);
    o.push('\n');
    o.push_str(extra);
    o
}

pub fn const_prelude(inner: Inner) -> String {
    let bty = match inner {
        Inner::Str => "usize",
        Inner::Int(t) => t.name(),
        Inner::F32 => "f32",
        Inner::F64 => "f64",
        _ => return String::new(),
    };
    let fl = inner.is_float();
    let mut o = format!(
        "pub const KA: {bty} = {};\npub const KB: {bty} = {};\npub const ONE: {bty} = {};\npub mod k {{ pub const KM: {bty} = {}; }}\npub const fn kmax() -> {bty} {{ {} }}\n",
        if fl { "5.0" } else { "5" },
        if fl { "100.0" } else { "100" },
        if fl { "1.0" } else { "1" },
        if fl { "3.0" } else { "3" },
        if fl { "42.0" } else { "42" }
    );
    // the same capture-prone names as in the run-time corpus (decl.rs)
    let (v10, v100, v90) = if fl { ("10.0", "100.0", "90.0") } else { ("10", "100", "90") };
    o.push_str(&format!(
        "pub const MIN: {bty} = {v10};\npub const MAX: {bty} = {v100};\npub const LOWER: {bty} = {v10};\npub const UPPER: {bty} = {v100};\npub const RANGE: {bty} = {v90};\npub const fn lower() -> {bty} {{ {v10} }}\npub const fn upper() -> {bty} {{ {v100} }}\n"
    ));
    o
}

/// raw unit: attribute text and struct text given literally (for faults the Decl AST cannot express)
pub fn raw_unit(inner: Inner, attr: &str, strukt: &str, extra_prelude: &str) -> (String, String) {
    let mut o = String::new();
    o.push_str("#![allow(unused, non_snake_case, non_upper_case_globals, non_camel_case_types, clippy::all)]\n");
    o.push_str("use nutype::nutype;\nuse crate::prelude::*;\n");
    o.push_str(&local_fns(inner, false));
    o.push_str(&const_prelude(inner));
    o.push_str(extra_prelude);
    let decl = format!("#[nutype({attr})]\n{strukt}");
    o.push_str(&decl);
    o.push('\n');
    (o, decl)
}

fn feats(f: &[&str]) -> Vec<String> {
    f.iter().map(|s| s.to_string()).collect()
}

const ALL: &[&str] = &["serde", "regex", "arbitrary", "new_unchecked"];

// ------------------------------------------------------------------------------------ C10 other inner shapes

/// Inner types of the "any other type" family that the run-time corpus does not hold - maps, arrays, Option,
/// tuples - with and without `IntoIterator` in the derive list: transparent JSON and a round trip, decided by a
/// generated `#[test]` per unit.
pub fn c10_shape_units() -> Vec<Unit> {
    let mut out = vec![];
    let header = "#![allow(unused, non_snake_case, non_camel_case_types, clippy::all)]\nuse nutype::nutype;\nuse crate::prelude::*;\nuse ::std::collections::{BTreeMap, BTreeSet, HashMap, VecDeque};\n";
    for (name, ty, value) in [
        ("btreemap", "BTreeMap<String, i32>", "[(\"a\".to_string(), 1), (\"b\".to_string(), 2)].into_iter().collect::<BTreeMap<String, i32>>()"),
        ("hashmap-one", "HashMap<String, i32>", "[(\"a\".to_string(), 1)].into_iter().collect::<HashMap<String, i32>>()"),
        ("array", "[i32; 3]", "[1, 2, 3]"),
        ("option-some", "Option<i32>", "Some(7)"),
        ("option-none", "Option<i32>", "None::<i32>"),
        ("btreeset", "BTreeSet<i32>", "[3, 1, 2].into_iter().collect::<BTreeSet<i32>>()"),
        ("vecdeque", "VecDeque<i32>", "[3, 1, 2].into_iter().collect::<VecDeque<i32>>()"),
        ("tuple", "(i32, String)", "(1, \"x\".to_string())"),
        ("nested-vec", "Vec<Vec<u8>>", "vec![vec![1u8, 2], vec![]]"),
    ] {
        for with_iter in [true, false] {
            if with_iter && name == "tuple" {
                continue; // tuples are not IntoIterator
            }
            let derives = if with_iter { "Debug, Clone, PartialEq, Serialize, Deserialize, IntoIterator" } else { "Debug, Clone, PartialEq, Serialize, Deserialize" };
            let decl = format!("#[nutype(derive({derives}))]\npub struct T({ty});");
            let test = format!(
                "#[test]\nfn json_is_transparent_and_round_trips() {{\n    let inner: {ty} = {value};\n    let v = T::new(inner.clone());\n    let js = ::serde_json::to_string(&v).unwrap();\n    assert_eq!(js, ::serde_json::to_string(&inner).unwrap(), \"not the inner value's own encoding\");\n    let back: T = ::serde_json::from_str(&js).unwrap();\n    assert_eq!(back, v);\n    let val = ::serde_json::to_value(&v).unwrap();\n    let back2: T = ::serde_json::from_value(val).unwrap();\n    assert_eq!(back2, v);\n}}\n"
            );
            out.push(Unit {
                id: String::new(),
                class: format!("shape:{name}:{}", if with_iter { "with-IntoIterator" } else { "plain" }),
                features: feats(ALL),
                source: format!("{header}{decl}\n{test}"),
                expect: Expect::Accept,
                expect_errors: vec![],
                tests_must_fail: vec![],
                tests_must_pass: vec!["json_is_transparent_and_round_trips".into()],
                decl,
                nontrivial: true,
            });
        }
    }
    for (i, u) in out.iter_mut().enumerate() {
        u.id = format!("j{:04}", i + 1);
    }
    out
}

// ------------------------------------------------------------------------------------ C13 borrowed forms

/// `Borrow<X>` promises that `Hash`, `Eq` and `Ord` of the newtype agree with those of `X`. The run-time check
/// compares against the borrowed forms it knows (the inner type; `str` and `String` for strings); any further
/// `Borrow` impl would be a promise nobody checks, so there must be none: borrowing as another type does not
/// compile.
pub fn c13_gate_units() -> Vec<Unit> {
    let mut out = vec![];
    let header = "#![allow(unused, non_snake_case, non_camel_case_types, clippy::all)]\nuse nutype::nutype;\nuse crate::prelude::*;\nuse ::core::borrow::Borrow;\n";
    let all = "Debug, Clone, PartialEq, Eq, PartialOrd, Ord, Hash, Borrow, AsRef, Deref";
    for (fam, decl, mk, forms) in [
        ("string", format!("#[nutype(sanitize(trim), validate(not_empty), derive({all}))]\npub struct T(String);"), "T::try_new(\"ab\").unwrap()", vec![("str", true), ("String", true), ("[u8]", false), ("Vec<u8>", false), ("::std::path::Path", false), ("::std::ffi::OsStr", false)]),
        ("int", format!("#[nutype(validate(greater = 0), derive({all}))]\npub struct T(i32);"), "T::try_new(5).unwrap()", vec![("i32", true), ("i64", false), ("u32", false), ("[u8; 4]", false)]),
        ("vec", format!("#[nutype(validate(predicate = |v| !v.is_empty()), derive({all}))]\npub struct T(Vec<i32>);"), "T::try_new(vec![1]).unwrap()", vec![("Vec<i32>", true), ("[i32]", false)]),
    ] {
        for (form, ok) in forms {
            let body = format!("pub fn f() {{ let t = {mk}; let _b: &{form} = Borrow::<{form}>::borrow(&t); }}\n");
            out.push(Unit {
                id: String::new(),
                class: format!("borrow-as:{fam}:{}", form.replace(['<', '>', ':', ' ', ';', '[', ']'], "_")),
                features: feats(ALL),
                source: format!("{header}{decl}\n{body}"),
                expect: if ok { Expect::Accept } else { Expect::Reject },
                expect_errors: vec![],
                tests_must_fail: vec![],
                tests_must_pass: vec![],
                decl: decl.clone(),
                nontrivial: true,
            });
        }
    }
    for (i, u) in out.iter_mut().enumerate() {
        u.id = format!("b{:04}", i + 1);
    }
    out
}

// ------------------------------------------------------------------------------------ C16 scope

/// The message and the validator are generated from the same bound tokens; they must also resolve them in the
/// same scope. A newtype declared inside a function body, whose bound names a constant that exists at module
/// level and - with another value - locally: whichever of the two the validator enforces, the message (and the
/// FromStr error embedding it) has to state that one. Decided by a generated `#[test]` per unit.
pub fn c16_scope_units() -> Vec<Unit> {
    let mut out = vec![];
    let header = "#![allow(unused, non_snake_case, non_camel_case_types, clippy::all)]\nuse nutype::nutype;\nuse crate::prelude::*;\n";
    let cases: Vec<(&str, &str, String)> = vec![
        (
            "int-upper",
            "pub const LIMIT: i32 = 10;",
            "const LIMIT: i32 = 20;\n    #[nutype(validate(less_or_equal = LIMIT), derive(Debug, FromStr))]\n    struct T(i32);\n    let enforced_module = T::try_new(15).is_err();\n    let msg = T::try_new(1000).unwrap_err().to_string();\n    let parse_msg = \"1000\".parse::<T>().unwrap_err().to_string();\n    let (m, l) = (\"10\", \"20\");".to_string(),
        ),
        (
            "int-lower-expr",
            "pub const FLOOR: i64 = 10;",
            "const FLOOR: i64 = 20;\n    #[nutype(validate(greater = FLOOR + 0), derive(Debug, FromStr))]\n    struct T(i64);\n    let enforced_module = T::try_new(15).is_ok();\n    let msg = T::try_new(-1000).unwrap_err().to_string();\n    let parse_msg = \"-1000\".parse::<T>().unwrap_err().to_string();\n    let (m, l) = (\"10\", \"20\");".to_string(),
        ),
        (
            "float-lower",
            "pub const FLOOR: f64 = 10.0;",
            "const FLOOR: f64 = 20.0;\n    #[nutype(validate(greater_or_equal = FLOOR), derive(Debug, FromStr))]\n    struct T(f64);\n    let enforced_module = T::try_new(15.0).is_ok();\n    let msg = T::try_new(-1000.0).unwrap_err().to_string();\n    let parse_msg = \"-1000\".parse::<T>().unwrap_err().to_string();\n    let (m, l) = (\"10\", \"20\");".to_string(),
        ),
        (
            "string-min",
            "pub const MIN_LEN: usize = 2;",
            "const MIN_LEN: usize = 5;\n    #[nutype(validate(len_char_min = MIN_LEN), derive(Debug, FromStr))]\n    struct T(String);\n    let enforced_module = T::try_new(\"abc\").is_ok();\n    let msg = T::try_new(\"\").unwrap_err().to_string();\n    let parse_msg = \"\".parse::<T>().unwrap_err().to_string();\n    let (m, l) = (\"2\", \"5\");".to_string(),
        ),
        (
            "string-max",
            "pub const MAX_LEN: usize = 3;",
            "const MAX_LEN: usize = 6;\n    #[nutype(validate(len_char_max = MAX_LEN), derive(Debug, FromStr))]\n    struct T(String);\n    let enforced_module = T::try_new(\"abcde\").is_err();\n    let msg = T::try_new(\"abcdefghijk\").unwrap_err().to_string();\n    let parse_msg = \"abcdefghijk\".parse::<T>().unwrap_err().to_string();\n    let (m, l) = (\"3\", \"6\");".to_string(),
        ),
    ];
    for (name, module_const, body) in cases {
        let test = format!(
            "{module_const}\n#[test]\nfn message_states_the_enforced_bound() {{\n    {body}\n    let (enforced, other) = if enforced_module {{ (m, l) }} else {{ (l, m) }};\n    assert!(msg.contains(enforced) && !msg.contains(other), \"validator enforces {{enforced}} but the message says: {{msg}}\");\n    assert!(parse_msg.contains(enforced) && !parse_msg.contains(other), \"validator enforces {{enforced}} but the FromStr error says: {{parse_msg}}\");\n}}\n"
        );
        out.push(Unit {
            id: String::new(),
            class: format!("scope:{name}"),
            features: feats(ALL),
            source: format!("{header}{test}"),
            expect: Expect::Accept,
            expect_errors: vec![],
            tests_must_fail: vec![],
            tests_must_pass: vec!["message_states_the_enforced_bound".into()],
            decl: format!("(inside a fn body, {module_const} shadowed locally) {}", name),
            nontrivial: true,
        });
    }
    for (i, u) in out.iter_mut().enumerate() {
        u.id = format!("s{:04}", i + 1);
    }
    out
}

// ------------------------------------------------------------------------------------ C11 premise

/// C11 speaks about every obtainable value: its premise is that a value, once obtained, cannot be changed in
/// place by safe client code. The in-place mutation attacks of the C05 catalogue (with their controls), over
/// the fixed bases.
pub fn c11_gate_units() -> Vec<Unit> {
    const MUTATIONS: &[&str] = &[
        "field-write",
        "destructure-ref-mut",
        "assign-through-deref",
        "deref-mut-call",
        "mem-replace-through-deref",
        "as-mut",
        "borrow-mut",
        "iter-mut",
        "for-in-mut-ref",
        "push-through-deref",
        "get-mut-through-deref",
    ];
    let mut out: Vec<Unit> = c05_units(0, false)
        .into_iter()
        .filter(|u| {
            let mut parts = u.class.split(':');
            let kind = parts.next().unwrap_or("");
            let name = parts.next().unwrap_or("");
            (kind == "attack" || kind == "control") && MUTATIONS.contains(&name) && !u.class.contains("random")
        })
        .collect();
    for (i, u) in out.iter_mut().enumerate() {
        u.id = format!("m{:04}", i + 1);
    }
    out
}

// ------------------------------------------------------------------------------------ C12 derive gate

/// C12's premise: `Eq`/`Ord` on a float newtype is only permitted together with `finite`. Every
/// validation shape without `finite` x every derive set containing `Eq` must be rejected; the same
/// shapes with `finite` in any position are the accepted controls.
pub fn c12_gate_units() -> Vec<Unit> {
    let mut out: Vec<Unit> = vec![];
    for (inner, ty, m) in [(Inner::F32, "f32", "ff32"), (Inner::F64, "f64", "ff64")] {
        let shapes: Vec<(&str, String)> = vec![
            ("no-validation", String::new()),
            ("sanitize-only", "sanitize(with = |x| x)".into()),
            ("one-bound", "validate(less = 5.0)".into()),
            ("two-bounds", "validate(greater_or_equal = 0.0, less_or_equal = 1.0)".into()),
            ("expr-bounds", "validate(greater = -KA, less = KB)".into()),
            ("predicate", "validate(predicate = |x| !x.is_nan())".into()),
            ("bounds+predicate", "validate(greater = 0.0, predicate = |x| x.is_finite(), less = 9.0)".into()),
            ("custom", format!("validate(with = {m}::v_small, error = CustomErr)")),
            ("sanitize+custom", format!("sanitize(with = |x| x), validate(with = {m}::v_small, error = CustomErr)")),
        ];
        let derives = [
            ("eq", "PartialEq, Eq"),
            ("ord", "PartialEq, Eq, PartialOrd, Ord"),
            ("ord-first", "Ord, PartialOrd, Eq, PartialEq, Debug, Clone, Copy"),
            ("eq+entry-points", "Debug, Clone, Copy, PartialEq, Eq, FromStr, AsRef"),
        ];
        for (sn, shape) in &shapes {
            for (dn, dv) in derives {
                let attr = if shape.is_empty() { format!("derive({dv})") } else { format!("{shape}, derive({dv})") };
                let (source, decl) = raw_unit(inner, &attr, &format!("pub struct T({ty});"), "");
                out.push(Unit {
                    id: String::new(),
                    class: format!("derive-gate:{dn}-without-finite:{sn}"),
                    features: feats(ALL),
                    source,
                    expect: Expect::Reject,
                    expect_errors: vec!["NaN".into()],
                    tests_must_fail: vec![],
                    tests_must_pass: vec![],
                    decl,
                    nontrivial: true,
                });
            }
        }
        for (cn, attr) in [
            ("finite-alone", "validate(finite)"),
            ("finite-first", "validate(finite, less = 5.0)"),
            ("finite-last", "validate(greater_or_equal = 0.0, less_or_equal = 1.0, finite)"),
            ("finite-middle", "validate(greater = 0.0, finite, predicate = |x| *x != 3.0)"),
            ("finite+sanitize", "sanitize(with = |x| x), validate(finite)"),
        ] {
            let attr = format!("{attr}, derive(Debug, Clone, Copy, PartialEq, Eq, PartialOrd, Ord)");
            let (source, decl) = raw_unit(inner, &attr, &format!("pub struct T({ty});"), "");
            out.push(Unit {
                id: String::new(),
                class: format!("derive-gate:control:{cn}"),
                features: feats(ALL),
                source,
                expect: Expect::Accept,
                expect_errors: vec![],
                tests_must_fail: vec![],
                tests_must_pass: vec![],
                decl,
                nontrivial: true,
            });
        }
    }
    // floats behind another spelling (an alias, a path, a container) fall into the "any other type" family:
    // Eq / Ord there must still fail, through the inner type not being Eq
    for (name, pre, ty) in [
        ("alias", "pub type Seconds = f64;\n", "Seconds"),
        ("primitive-path", "", "::core::primitive::f32"),
        ("option", "", "Option<f64>"),
        ("array", "", "[f32; 3]"),
        ("vec", "", "Vec<f64>"),
        ("tuple", "", "(i32, f64)"),
    ] {
        for (dn, dv) in [("eq", "PartialEq, Eq"), ("ord", "PartialEq, Eq, PartialOrd, Ord")] {
            let (source, decl) = raw_unit(Inner::Point, &format!("derive(Debug, Clone, {dv})"), &format!("pub struct T({ty});"), pre);
            out.push(Unit {
                id: String::new(),
                class: format!("derive-gate:{dn}-on-float-like-any-type:{name}"),
                features: feats(ALL),
                source,
                expect: Expect::Reject,
                expect_errors: vec![],
                tests_must_fail: vec![],
                tests_must_pass: vec![],
                decl,
                nontrivial: true,
            });
        }
        let (source, decl) = raw_unit(Inner::Point, "derive(Debug, Clone, PartialEq, PartialOrd)", &format!("pub struct T({ty});"), pre);
        out.push(Unit { id: String::new(), class: format!("derive-gate:control-partial-only:{name}"), features: feats(ALL), source, expect: Expect::Accept, expect_errors: vec![], tests_must_fail: vec![], tests_must_pass: vec![], decl, nontrivial: true });
    }
    // `new_unchecked` is the one way around `finite`: with the feature and the flag it exists, and calling it
    // outside `unsafe` must not compile - in any flavour of the declaration
    for (inner, ty) in [(Inner::F32, "f32"), (Inner::F64, "f64")] {
        for (fl, flags) in [("plain", "new_unchecked"), ("const_fn", "const_fn, new_unchecked"), ("const_fn-last", "new_unchecked, const_fn")] {
            for (kind, body, expect, errs) in [
                ("safe-call", format!("pub fn attack() -> T {{ T::new_unchecked({ty}::NAN) }}"), Expect::Reject, vec!["E0133".to_string()]),
                ("safe-call-in-const", format!("pub const ATTACK: T = T::new_unchecked({ty}::INFINITY);"), Expect::Reject, vec![]),
                ("unsafe-call-control", "pub fn control() -> T { unsafe { T::new_unchecked(1.0) } }".to_string(), Expect::Accept, vec![]),
            ] {
                if kind == "safe-call-in-const" && fl == "plain" {
                    continue; // not a const fn at all: rejected for that reason, says nothing
                }
                let attr = format!("{flags}, validate(finite), derive(Debug, Clone, Copy, PartialEq, Eq, PartialOrd, Ord)");
                let (mut source, decl) = raw_unit(inner, &attr, &format!("pub struct T({ty});"), "");
                source.push_str(&body);
                source.push('\n');
                out.push(Unit {
                    id: String::new(),
                    class: format!("new_unchecked:{kind}:{fl}"),
                    features: feats(ALL),
                    source,
                    expect,
                    expect_errors: errs,
                    tests_must_fail: vec![],
                    tests_must_pass: vec![],
                    decl,
                    nontrivial: true,
                });
            }
        }
    }
    for (i, u) in out.iter_mut().enumerate() {
        u.id = format!("g{:04}", i + 1);
    }
    out
}

// ------------------------------------------------------------------------------------ C08

/// Declarations of the documented grammar with injected faults, paired with the verdict of an
/// independent predicate written from the README / property statement.
pub fn c08_units(seed: u64, thorough: bool) -> Vec<Unit> {
    let mut out: Vec<Unit> = vec![];
    let mut push = |class: &str, features: &[&str], inner: Inner, attr: &str, strukt: &str, expect: Expect, errs: &[&str]| {
        let (source, decl) = raw_unit(inner, attr, strukt, "");
        out.push(Unit {
            id: String::new(),
            class: class.to_string(),
            features: feats(features),
            source,
            expect,
            expect_errors: errs.iter().map(|s| s.to_string()).collect(),
            tests_must_fail: vec![],
            tests_must_pass: vec![],
            decl,
            nontrivial: true,
        });
    };
    use Expect::*;
    let i32_ = Inner::Int(IntTy::I32);
    let f64_ = Inner::F64;
    let s_ = Inner::Str;
    let v_ = Inner::VecI32;

    // --- struct shape, field visibility, foreign attributes
    for (fam, inner, ty) in [("int", i32_, "i32"), ("float", f64_, "f64"), ("string", s_, "String"), ("other", v_, "Vec<i32>")] {
        push(&format!("shape:pub-field:{fam}"), ALL, inner, "derive(Debug)", &format!("pub struct T(pub {ty});"), Reject, &["visibility"]);
        push(&format!("shape:pub-crate-field:{fam}"), ALL, inner, "derive(Debug)", &format!("pub struct T(pub(crate) {ty});"), Reject, &["visibility"]);
        push(&format!("shape:foreign-derive:{fam}"), ALL, inner, "derive(Debug)", &format!("#[derive(Clone)]\npub struct T({ty});"), Reject, &["derive"]);
        push(&format!("shape:foreign-attr-repr:{fam}"), ALL, inner, "derive(Debug)", &format!("#[repr(transparent)]\npub struct T({ty});"), Reject, &["does not support this attribute"]);
        push(&format!("shape:foreign-attr-serde:{fam}"), ALL, inner, "derive(Debug)", &format!("#[serde(transparent)]\npub struct T({ty});"), Reject, &["does not support this attribute"]);
        push(&format!("shape:doc-comment:{fam}"), ALL, inner, "derive(Debug)", &format!("/// documented\npub struct T({ty});"), Accept, &[]);
        push(&format!("shape:named-field:{fam}"), ALL, inner, "derive(Debug)", &format!("pub struct T {{ v: {ty} }}"), Reject, &["tuple struct"]);
        push(&format!("shape:empty-tuple:{fam}"), ALL, inner, "derive(Debug)", "pub struct T();", Reject, &[]);
        push(&format!("shape:unit-struct:{fam}"), ALL, inner, "derive(Debug)", "pub struct T;", Reject, &["tuple struct"]);
        push(&format!("shape:enum:{fam}"), ALL, inner, "derive(Debug)", &format!("pub enum T {{ A({ty}) }}"), Reject, &["tuple struct"]);
        push(&format!("vis:private:{fam}"), ALL, inner, "derive(Debug)", &format!("struct T({ty});"), Accept, &[]);
        push(&format!("vis:pub-crate:{fam}"), ALL, inner, "derive(Debug)", &format!("pub(crate) struct T({ty});"), Accept, &[]);
        push(&format!("vis:pub-super:{fam}"), ALL, inner, "derive(Debug)", &format!("pub(super) struct T({ty});"), Accept, &[]);
        push(&format!("attr:empty:{fam}"), ALL, inner, "", &format!("pub struct T({ty});"), Accept, &[]);
        push(&format!("attr:unknown:{fam}"), ALL, inner, "sanitise(trim)", &format!("pub struct T({ty});"), Reject, &["Unknown attribute"]);
        push(&format!("attr:sanitize-no-paren:{fam}"), ALL, inner, "sanitize", &format!("pub struct T({ty});"), Reject, &["parenthesis"]);
        push(&format!("attr:validate-empty:{fam}"), ALL, inner, "validate()", &format!("pub struct T({ty});"), Reject, &["At least one validator"]);
        push(&format!("derive:unknown-trait:{fam}"), ALL, inner, "derive(Debug, Zeroize)", &format!("pub struct T({ty});"), Reject, &["does not know how to derive"]);
        push(&format!("derive:default-without-default:{fam}"), ALL, inner, "derive(Debug, Default)", &format!("pub struct T({ty});"), Reject, &["default"]);
        push(&format!("derive:from-and-tryfrom:{fam}"), ALL, inner, "derive(Debug, From, TryFrom)", &format!("pub struct T({ty});"), Reject, &["TryFrom"]);
    }

    // --- unknown / wrong-family / wrong-case items
    let items: Vec<(&str, Inner, &str, &str, Expect, &str)> = vec![
        ("wrong-family:trim-on-int", i32_, "sanitize(trim)", "pub struct T(i32);", Reject, "Unknown sanitizer"),
        ("wrong-family:lowercase-on-float", f64_, "sanitize(lowercase)", "pub struct T(f64);", Reject, "Unknown sanitizer"),
        ("wrong-family:trim-on-other", v_, "sanitize(trim)", "pub struct T(Vec<i32>);", Reject, "Unknown sanitizer"),
        ("wrong-family:finite-on-int", i32_, "validate(finite)", "pub struct T(i32);", Reject, "Unknown validation attribute"),
        ("wrong-family:len-on-int", i32_, "validate(len_char_min = 3)", "pub struct T(i32);", Reject, "Unknown validation attribute"),
        ("wrong-family:greater-on-string", s_, "validate(greater = 3)", "pub struct T(String);", Reject, "Unknown validation attribute"),
        ("wrong-family:not_empty-on-other", v_, "validate(not_empty)", "pub struct T(Vec<i32>);", Reject, "Unknown validation attribute"),
        ("wrong-family:less-on-other", v_, "validate(less = 3)", "pub struct T(Vec<i32>);", Reject, "Unknown validation attribute"),
        ("wrong-family:regex-on-int", i32_, "validate(regex = \"^a$\")", "pub struct T(i32);", Reject, "Unknown"),
        ("wrong-family:copy-on-string", s_, "derive(Clone, Copy)", "pub struct T(String);", Reject, "Copy"),
        ("wrong-family:hash-on-float", f64_, "derive(Hash)", "pub struct T(f64);", Reject, "Hash"),
        ("wrong-family:intoiter-on-int", i32_, "derive(IntoIterator)", "pub struct T(i32);", Reject, "IntoIterator"),
        ("wrong-family:intoiter-on-string", s_, "derive(IntoIterator)", "pub struct T(String);", Reject, "IntoIterator"),
        ("wrong-family:intoiter-on-float", f64_, "derive(IntoIterator)", "pub struct T(f64);", Reject, "IntoIterator"),
        ("unknown:sanitizer", s_, "sanitize(strip)", "pub struct T(String);", Reject, "Unknown sanitizer"),
        ("unknown:validator", s_, "validate(max_len = 3)", "pub struct T(String);", Reject, "Unknown validation attribute"),
        ("wrong-case:Trim", s_, "sanitize(Trim)", "pub struct T(String);", Reject, "Unknown sanitizer"),
        ("wrong-case:lenCharMin", s_, "validate(lenCharMin = 3)", "pub struct T(String);", Reject, "Unknown"),
        ("wrong-case:LESS", i32_, "validate(LESS = 3)", "pub struct T(i32);", Reject, "Unknown"),
        ("wrong-case:NotEmpty", s_, "validate(NotEmpty)", "pub struct T(String);", Reject, "Unknown"),
        ("wrong-case:Finite", f64_, "validate(Finite)", "pub struct T(f64);", Reject, "Unknown"),
        ("wrong-case:With", i32_, "sanitize(With = |x| x)", "pub struct T(i32);", Reject, "Unknown sanitizer"),
        ("wrong-case:debug", i32_, "derive(debug)", "pub struct T(i32);", Reject, "does not know how to derive"),
        // duplicates
        ("duplicate:sanitizer-trim", s_, "sanitize(trim, trim)", "pub struct T(String);", Reject, "Duplicated sanitizer"),
        ("duplicate:sanitizer-with", i32_, "sanitize(with = |x| x, with = |x| x + 1)", "pub struct T(i32);", Reject, "Duplicated sanitizer"),
        // the same item twice with other items in between
        ("duplicate:sanitizer-trim-nonadjacent", s_, "sanitize(trim, lowercase, trim)", "pub struct T(String);", Reject, "Duplicated sanitizer"),
        ("duplicate:sanitizer-case-nonadjacent", s_, "sanitize(uppercase, trim, with = |s| s, uppercase)", "pub struct T(String);", Reject, "Duplicated sanitizer"),
        ("duplicate:sanitizer-with-nonadjacent", s_, "sanitize(with = |s| s, trim, with = |s: String| s)", "pub struct T(String);", Reject, "Duplicated sanitizer"),
        ("duplicate:sanitizer-trim-first-last", s_, "sanitize(trim, lowercase, with = |s| s, trim)", "pub struct T(String);", Reject, "Duplicated sanitizer"),
        ("duplicate:validator-less-nonadjacent", i32_, "validate(less = 5, greater = 1, less = 6)", "pub struct T(i32);", Reject, ""),
        ("duplicate:validator-not_empty-nonadjacent", s_, "validate(not_empty, len_char_max = 5, not_empty)", "pub struct T(String);", Reject, ""),
        ("duplicate:validator-predicate-nonadjacent", s_, "validate(predicate = |s| s.len() > 1, len_char_min = 1, predicate = |s| s.len() < 9)", "pub struct T(String);", Reject, ""),
        ("duplicate:validator-finite-nonadjacent", f64_, "validate(finite, less = 1.0, finite)", "pub struct T(f64);", Reject, ""),
        ("duplicate:validator-len-nonadjacent", s_, "validate(len_char_max = 5, not_empty, len_char_max = 6)", "pub struct T(String);", Reject, ""),
        // a trait listed twice changes nothing about the guarantee (the macro keeps a set): no opinion
        ("duplicate:derive-nonadjacent", i32_, "derive(Debug, Clone, Debug)", "pub struct T(i32);", NoOpinion, ""),
        ("duplicate:derive-adjacent", i32_, "derive(Clone, Clone)", "pub struct T(i32);", NoOpinion, ""),
        ("duplicate:validator-less", i32_, "validate(less = 5, less = 6)", "pub struct T(i32);", Reject, "Duplicated validator"),
        ("duplicate:validator-len", s_, "validate(len_char_max = 5, len_char_max = 6)", "pub struct T(String);", Reject, "Duplicated validator"),
        ("duplicate:validator-finite", f64_, "validate(finite, finite)", "pub struct T(f64);", Reject, "Duplicated validator"),
        ("duplicate:validator-predicate", v_, "validate(predicate = |v| v.is_empty(), predicate = |v| v.len() > 1)", "pub struct T(Vec<i32>);", Reject, "Duplicated"),
        ("duplicate:with", i32_, "validate(with = fi32::v_small, with = fi32::v_small, error = CustomErr)", "pub struct T(i32);", Reject, "Duplicate"),
        ("duplicate:error", i32_, "validate(with = fi32::v_small, error = CustomErr, error = CustomErr)", "pub struct T(i32);", Reject, "Duplicate"),
        ("duplicate:block-validate", i32_, "validate(less = 5), validate(greater = 1)", "pub struct T(i32);", Reject, "more than once"),
        ("duplicate:block-sanitize", s_, "sanitize(trim), sanitize(lowercase)", "pub struct T(String);", Reject, "more than once"),
        ("duplicate:block-default", i32_, "default = 1, default = 2, derive(Default)", "pub struct T(i32);", Reject, "more than once"),
        ("conflict:lowercase+uppercase", s_, "sanitize(lowercase, uppercase)", "pub struct T(String);", Reject, "makes no sense"),
        ("conflict:uppercase+trim+lowercase", s_, "sanitize(uppercase, trim, lowercase)", "pub struct T(String);", Reject, "makes no sense"),
        ("conflict:greater+greater_or_equal", i32_, "validate(greater = 1, greater_or_equal = 2)", "pub struct T(i32);", Reject, "lower bound"),
        ("conflict:less+less_or_equal", f64_, "validate(less = 1.0, less_or_equal = 2.0)", "pub struct T(f64);", Reject, "upper bound"),
        // with / error pairing
        ("custom:with-without-error", i32_, "validate(with = fi32::v_small)", "pub struct T(i32);", Reject, "requires an accompanying `error`"),
        ("custom:error-without-with", i32_, "validate(error = CustomErr)", "pub struct T(i32);", Reject, "requires an accompanying `with`"),
        ("custom:mixed-with-builtin", i32_, "validate(less = 5, with = fi32::v_small, error = CustomErr)", "pub struct T(i32);", Reject, "cannot be used mixed"),
        ("custom:mixed-error-only", s_, "validate(not_empty, error = CustomErr)", "pub struct T(String);", Reject, "cannot be used mixed"),
        ("custom:ok", i32_, "validate(with = fi32::v_small, error = CustomErr), derive(Debug, TryFrom)", "pub struct T(i32);", Accept, ""),
        // From alongside validators
        ("from-with-validation:int", i32_, "validate(less = 5), derive(From)", "pub struct T(i32);", Reject, "cannot derive `From`"),
        ("from-with-validation:float", f64_, "validate(finite), derive(From)", "pub struct T(f64);", Reject, "cannot derive `From`"),
        ("from-with-validation:string", s_, "validate(not_empty), derive(From)", "pub struct T(String);", Reject, "cannot derive `From`"),
        ("from-with-custom-validation:int", i32_, "validate(with = fi32::v_small, error = CustomErr), derive(From)", "pub struct T(i32);", Reject, "cannot derive `From`"),
        ("from-with-validation:other", v_, "validate(predicate = |v| !v.is_empty()), derive(From)", "pub struct T(Vec<i32>);", Reject, ""),
        ("from-without-validation:int", i32_, "sanitize(with = |x| x.clamp(0, 5)), derive(From)", "pub struct T(i32);", Accept, ""),
        // float Eq / Ord
        ("float-eq-without-finite", f64_, "derive(PartialEq, Eq)", "pub struct T(f64);", Reject, "NaN"),
        ("float-ord-without-finite", f64_, "validate(less = 5.0), derive(PartialEq, Eq, PartialOrd, Ord)", "pub struct T(f64);", Reject, "NaN"),
        ("float-eq-with-bounds-only", Inner::F32, "validate(greater_or_equal = 0.0, less_or_equal = 1.0), derive(PartialEq, Eq)", "pub struct T(f32);", Reject, "NaN"),
        ("float-eq-with-predicate-only", f64_, "validate(predicate = |x| !x.is_nan()), derive(PartialEq, Eq)", "pub struct T(f64);", Reject, "NaN"),
        ("float-eq-with-custom-validation", f64_, "validate(with = ff64::v_small, error = CustomErr), derive(PartialEq, Eq)", "pub struct T(f64);", Reject, "NaN"),
        ("float-eq-without-partialeq", f64_, "validate(finite), derive(Eq)", "pub struct T(f64);", Reject, "requires PartialEq"),
        ("float-ord-without-partialord", f64_, "validate(finite), derive(PartialEq, Eq, Ord)", "pub struct T(f64);", Reject, "requires PartialOrd"),
        ("float-ord-without-eq", f64_, "validate(finite), derive(PartialEq, PartialOrd, Ord)", "pub struct T(f64);", Reject, "requires Eq"),
        ("float-eq-ord-with-finite", f64_, "validate(finite), derive(PartialEq, Eq, PartialOrd, Ord)", "pub struct T(f64);", Accept, ""),
        ("float-eq-ord-with-finite-last", Inner::F32, "validate(less = 5.0, finite), derive(PartialEq, Eq, PartialOrd, Ord)", "pub struct T(f32);", Accept, ""),
        // Arbitrary admissibility
        ("arbitrary-with-predicate:int", i32_, "validate(predicate = |x| *x > 0), derive(Arbitrary)", "pub struct T(i32);", Reject, "Arbitrary"),
        ("arbitrary-with-predicate:float", f64_, "validate(predicate = |x| *x > 0.0), derive(Arbitrary)", "pub struct T(f64);", Reject, "Arbitrary"),
        ("arbitrary-with-predicate:string", s_, "validate(predicate = |s| s.len() > 1), derive(Arbitrary)", "pub struct T(String);", Reject, "Arbitrary"),
        ("arbitrary-with-regex:string", s_, "validate(regex = \"^a+$\"), derive(Arbitrary)", "pub struct T(String);", Reject, "Arbitrary"),
        ("arbitrary-with-custom:int", i32_, "validate(with = fi32::v_small, error = CustomErr), derive(Arbitrary)", "pub struct T(i32);", Reject, "Arbitrary"),
        ("arbitrary-with-custom:string", s_, "validate(with = fstr::v_nobang, error = CustomErr), derive(Arbitrary)", "pub struct T(String);", Reject, "Arbitrary"),
        ("arbitrary-with-validation:other", v_, "validate(predicate = |v| !v.is_empty()), derive(Arbitrary)", "pub struct T(Vec<i32>);", Reject, "Arbitrary"),
        ("arbitrary-with-sanitizer+validation:float", f64_, "sanitize(with = |x| x), validate(less = 1.0), derive(Arbitrary)", "pub struct T(f64);", Reject, "Arbitrary"),
        ("arbitrary-with-sanitizer+validation:string", s_, "sanitize(with = |s| s), validate(not_empty), derive(Arbitrary)", "pub struct T(String);", Reject, "Arbitrary"),
        // regex
        ("regex:invalid-literal", s_, "validate(regex = \"(unclosed\")", "pub struct T(String);", Reject, "regex"),
        ("regex:invalid-literal-class", s_, "validate(regex = \"[z-a]\")", "pub struct T(String);", Reject, ""),
        ("regex:invalid-literal-repetition", s_, "validate(regex = \"a{2,1}\")", "pub struct T(String);", Reject, ""),
        ("regex:invalid-literal-escape", s_, "validate(regex = \"\\\\y\")", "pub struct T(String);", Reject, ""),
        ("regex:invalid-literal-unicode-class", s_, "validate(regex = \"\\\\p{NoSuchClass}\")", "pub struct T(String);", Reject, ""),
        ("regex:invalid-literal-flag", s_, "validate(regex = \"(?z)a\")", "pub struct T(String);", Reject, ""),
        ("regex:unsupported-lookahead", s_, "validate(regex = \"a(?=b)\")", "pub struct T(String);", Reject, ""),
        ("regex:unsupported-backreference", s_, "validate(regex = \"(a)\\\\1\")", "pub struct T(String);", Reject, ""),
        // parses, but the compiled program exceeds the size limit: `Regex::new` fails, so the validator could never be built
        ("regex:too-big-unicode-repetition", s_, "validate(regex = \"^\\\\pL{2000}$\")", "pub struct T(String);", Reject, ""),
        ("regex:too-big-nested-repetition", s_, "validate(regex = \"((a{100}){100}){100}\")", "pub struct T(String);", Reject, ""),
        ("regex:dangling-repetition", s_, "validate(regex = \"*a\")", "pub struct T(String);", Reject, ""),
        ("regex:valid-literal", s_, "validate(regex = \"^[a-z]+$\")", "pub struct T(String);", Accept, ""),
        ("regex:valid-literal-unicode-class", s_, "validate(regex = \"^\\\\pL{2,20}$\")", "pub struct T(String);", Accept, ""),
        ("regex:valid-literal-escapes", s_, "validate(regex = \"^\\\\d+\\\\.\\\\d*$\")", "pub struct T(String);", Accept, ""),
        ("regex:not-a-string", s_, "validate(regex = 5)", "pub struct T(String);", Reject, ""),
    ];
    for (class, inner, attr, strukt, exp, err) in items {
        push(class, ALL, inner, attr, strukt, exp, if err.is_empty() { &[] } else { std::slice::from_ref(&err) });
    }

    // --- literal bounds that exclude each other, in every relative position
    for (fam, inner, ty, a, b, c) in [("int", i32_, "i32", "5", "6", "7"), ("float", f64_, "f64", "5.0", "6.0", "7.5"), ("neg-int", Inner::Int(IntTy::I8), "i8", "-7", "-6", "-5"), ("uint", Inner::Int(IntTy::U64), "u64", "0", "1", "2")] {
        let st = format!("pub struct T({ty});");
        // lower > upper: rejected in all four kind combinations
        for (lk, uk) in [("greater", "less"), ("greater", "less_or_equal"), ("greater_or_equal", "less"), ("greater_or_equal", "less_or_equal")] {
            push(&format!("bounds:crossing:{fam}:{lk}+{uk}"), ALL, inner, &format!("validate({lk} = {c}, {uk} = {a})"), &st, Reject, &["bound"]);
            push(&format!("bounds:crossing-reversed-order:{fam}:{uk}+{lk}"), ALL, inner, &format!("validate({uk} = {a}, {lk} = {c})"), &st, Reject, &["bound"]);
            push(&format!("bounds:consistent:{fam}:{lk}+{uk}"), ALL, inner, &format!("validate({lk} = {a}, {uk} = {c})"), &st, Accept, &[]);
        }
        // equal bounds: only inclusive+inclusive has a non-empty valid set
        push(&format!("bounds:equal:{fam}:ge+le"), ALL, inner, &format!("validate(greater_or_equal = {b}, less_or_equal = {b})"), &st, Accept, &[]);
        push(&format!("bounds:equal:{fam}:g+l"), ALL, inner, &format!("validate(greater = {b}, less = {b})"), &st, Reject, &["bound"]);
        push(&format!("bounds:equal-empty:{fam}:g+le"), ALL, inner, &format!("validate(greater = {b}, less_or_equal = {b})"), &st, Reject, &["bound"]);
        push(&format!("bounds:equal-empty:{fam}:ge+l"), ALL, inner, &format!("validate(greater_or_equal = {b}, less = {b})"), &st, Reject, &["bound"]);
        if fam != "float" {
            // adjacent exclusive integer bounds: no integer strictly between
            push(&format!("bounds:adjacent-empty:{fam}:g+l"), ALL, inner, &format!("validate(greater = {a}, less = {b})"), &st, Reject, &["bound"]);
        } else {
            push(&format!("bounds:adjacent-nonempty:{fam}:g+l"), ALL, inner, &format!("validate(greater = {a}, less = {b})"), &st, Accept, &[]);
        }
    }
    push("bounds:len-crossing", ALL, s_, "validate(len_char_min = 5, len_char_max = 4)", "pub struct T(String);", Reject, &["len_char_min"]);
    push("bounds:len-crossing-reversed-order", ALL, s_, "validate(len_char_max = 4, len_char_min = 5)", "pub struct T(String);", Reject, &["len_char_min"]);
    push("bounds:len-equal", ALL, s_, "validate(len_char_min = 5, len_char_max = 5)", "pub struct T(String);", Accept, &[]);
    push("bounds:len-consistent", ALL, s_, "validate(len_char_min = 2, len_char_max = 5)", "pub struct T(String);", Accept, &[]);
    push("bounds:not_empty+max0", ALL, s_, "validate(not_empty, len_char_max = 0)", "pub struct T(String);", NoOpinion, &[]);
    push("bounds:out-of-range-literal", ALL, Inner::Int(IntTy::U8), "validate(less = 256)", "pub struct T(u8);", Reject, &[]);
    push("bounds:negative-for-unsigned", ALL, Inner::Int(IntTy::U8), "validate(greater = -1)", "pub struct T(u8);", Reject, &[]);

    // --- feature-gated items without their feature
    for (class, inner, attr, strukt, feat, err) in [
        ("feature:serialize", i32_, "derive(Serialize)", "pub struct T(i32);", "serde", "feature `serde`"),
        ("feature:deserialize", s_, "derive(Deserialize)", "pub struct T(String);", "serde", "feature `serde`"),
        ("feature:arbitrary", f64_, "derive(Arbitrary)", "pub struct T(f64);", "arbitrary", "feature `arbitrary`"),
        ("feature:regex", s_, "validate(regex = \"^a$\")", "pub struct T(String);", "regex", "feature `regex`"),
        ("feature:new_unchecked", i32_, "new_unchecked", "pub struct T(i32);", "new_unchecked", "feature `new_unchecked`"),
        ("feature:jsonschema", i32_, "derive(JsonSchema)", "pub struct T(i32);", "schemars08", "feature `schemars08`"),
    ] {
        // without any feature: rejected
        push(&format!("{class}:without"), &[], inner, attr, strukt, Reject, &[err]);
        // with only the *other* features: still rejected
        let others: Vec<&str> = ALL.iter().copied().filter(|f| *f != feat).collect();
        push(&format!("{class}:with-other-features"), &others, inner, attr, strukt, Reject, &[err]);
        if feat != "schemars08" {
            push(&format!("{class}:with"), &[feat], inner, attr, strukt, Accept, &[]);
        }
    }

    // --- accept side: well-formed declarations from the catalogue grammar (no vlib), hostile names
    let names = ["D", "S", "T", "E", "DE", "V", "I", "Result", "Option", "Error", "Ok", "Err", "Some", "Vec", "Box", "Self_", "r#type", "__Visitor", "Value", "Inner"];
    for (ni, name) in names.iter().enumerate() {
        let (inner, ty) = [(i32_, "i32"), (f64_, "f64"), (s_, "String"), (v_, "Vec<i32>")][ni % 4];
        let v = match ni % 4 {
            0 => "validate(greater_or_equal = 1, less = 90)",
            1 => "validate(finite, less = 90.0)",
            2 => "sanitize(trim), validate(not_empty)",
            _ => "validate(predicate = |v| !v.is_empty())",
        };
        let traits = match ni % 4 {
            0 => "Debug, Clone, Copy, PartialEq, Eq, PartialOrd, Ord, FromStr, AsRef, Deref, TryFrom, Into, Hash, Borrow, Display, Serialize, Deserialize, Arbitrary",
            1 => "Debug, Clone, Copy, PartialEq, Eq, PartialOrd, Ord, FromStr, AsRef, Deref, TryFrom, Into, Borrow, Display, Serialize, Deserialize, Arbitrary",
            2 => "Debug, Clone, PartialEq, Eq, PartialOrd, Ord, FromStr, AsRef, Deref, TryFrom, Into, Hash, Borrow, Display, Serialize, Deserialize, Arbitrary",
            _ => "Debug, Clone, PartialEq, Eq, PartialOrd, Ord, AsRef, Deref, TryFrom, Into, Hash, Borrow, IntoIterator, Serialize, Deserialize",
        };
        // shadowing a prelude name inside the unit module is legal Rust; the macro must cope
        // names that shadow prelude items / reserved-looking names are legal Rust but outside what the
        // documentation promises: recorded without a verdict
        let exp = if matches!(*name, "Result" | "Option" | "Ok" | "Err" | "Some" | "__Visitor" | "r#type") { NoOpinion } else { Accept };
        push(&format!("name:{name}"), ALL, inner, &format!("{v}, derive({traits})"), &format!("pub struct {name}({ty});"), exp, &[]);
    }
    // type-parameter names
    for p in ["T", "D", "S", "E", "DE", "U", "V", "Item"] {
        push(
            &format!("generic-param:{p}"),
            ALL,
            v_,
            "sanitize(with = |mut v| { v.sort(); v }), validate(predicate = |v| !v.is_empty()), derive(Debug, Clone, PartialEq, Eq, PartialOrd, Ord, AsRef, Deref, TryFrom, Into, Hash, Borrow, IntoIterator, Serialize, Deserialize)",
            &format!("pub struct W<{p}: Ord + Clone>(Vec<{p}>);"),
            Accept,
            &[],
        );
        push(
            &format!("generic-param-plain:{p}"),
            ALL,
            v_,
            "derive(Debug, Clone, PartialEq, AsRef, Deref, Serialize, Deserialize, Arbitrary)",
            &format!("pub struct W<{p}>({p});"),
            Accept,
            &[],
        );
    }
    push("generic:new_unchecked", ALL, v_, "new_unchecked, derive(Debug)", "pub struct W<T>(Vec<T>);", Accept, &[]);
    push("generic:lifetime-cow", ALL, v_, "validate(predicate = |s| !s.is_empty()), derive(Debug, Clone, PartialEq, AsRef, Deref, Into)", "pub struct W<'a>(::std::borrow::Cow<'a, str>);", Accept, &[]);
    push("generic:str-ref", ALL, v_, "validate(predicate = |s| !s.is_empty()), derive(Debug, Clone, Copy, PartialEq, AsRef, Deref)", "pub struct W<'a>(&'a str);", Accept, &[]);
    push("generic:const-fn", ALL, i32_, "const_fn, validate(greater = 0), derive(Debug)", "pub struct T(i32);", Accept, &[]);
    push("generic:two-params", ALL, v_, "derive(Debug, Clone, PartialEq, AsRef)", "pub struct W<A, B>((A, B));", Accept, &[]);

    // the catalogue's own declarations (documented grammar): must be accepted without vlib too (sampled)
    let cat = catalogue::finalize(catalogue::catalogue(), "x");
    for (i, d) in cat.iter().enumerate() {
        if i % 9 != 0 || d.twin_of.is_some() {
            continue;
        }
        let mut d = d.clone();
        d.type_name = if d.generic == Generic::None { "T".into() } else { "W".into() };
        let grammar_features = d.sans.len() + d.std_vals().len() + d.derives.len() / 4 + d.default.is_some() as usize + d.const_fn as usize;
        out.push(Unit {
            id: String::new(),
            class: format!("grammar:{}", d.tags.first().cloned().unwrap_or_default().split(':').next().unwrap_or("")),
            features: feats(ALL),
            source: unit_source(&d, false, ""),
            expect: Accept,
            expect_errors: vec![],
            tests_must_fail: vec![],
            tests_must_pass: vec![],
            decl: d.decl_text(),
            nontrivial: grammar_features >= 3,
        });
    }

    // --- seed-dependent part: proptest-generated declarations of the documented grammar (accept side)
    //     and the same declarations with exactly one injected fault (reject side)
    // the path form of `regex` needs the feature as much as the literal form (a user type with `is_match`
    // stands in for the regex crate, which a crate without the feature need not depend on)
    {
        let pre = "pub struct Re; impl Re { pub fn is_match(&self, s: &str) -> bool { !s.is_empty() } }\npub static MY_RE: Re = Re;\n";
        for (cls, features, expect, errs) in [
            ("feature:regex-path:without", &[][..], Expect::Reject, &["feature `regex`"][..]),
            ("feature:regex-path:with-other-features", &["serde", "arbitrary", "new_unchecked"][..], Expect::Reject, &["feature `regex`"][..]),
            ("feature:regex-path:with", &["regex"][..], Expect::Accept, &[][..]),
        ] {
            let (source, decl) = raw_unit(s_, "validate(regex = MY_RE)", "pub struct T(String);", pre);
            out.push(Unit {
                id: String::new(),
                class: cls.to_string(),
                features: feats(features),
                source,
                expect,
                expect_errors: errs.iter().map(|s| s.to_string()).collect(),
                tests_must_fail: vec![],
                tests_must_pass: vec![],
                decl,
                nontrivial: true,
            });
        }
    }

    let n_random = if thorough { 500 } else { 90 };
    let rnd = catalogue::finalize(crate::random::random_decls(seed ^ 0xC08, n_random), "x");
    for (i, d) in rnd.iter().enumerate() {
        let mut d = d.clone();
        d.type_name = if d.generic == Generic::None { "T".into() } else { "W".into() };
        let feats_all = feats(ALL);
        out.push(Unit {
            id: String::new(),
            class: "random:valid".to_string(),
            features: feats_all.clone(),
            source: unit_source(&d, false, ""),
            expect: Accept,
            expect_errors: vec![],
            tests_must_fail: vec![],
            tests_must_pass: vec![],
            decl: d.decl_text(),
            nontrivial: d.sans.len() + d.std_vals().len() + d.derives.len() / 4 >= 3,
        });
        // the fault catalogue is written for non-generic declarations
        if let Some((fault, fd, features)) = inject_fault(&d, i).filter(|_| d.generic == Generic::None) {
            out.push(Unit {
                id: String::new(),
                class: format!("random:fault:{fault}"),
                features,
                source: unit_source(&fd, false, ""),
                expect: Reject,
                expect_errors: vec![],
                tests_must_fail: vec![],
                tests_must_pass: vec![],
                decl: fd.decl_text(),
                nontrivial: true,
            });
        }
    }

    // --- expression-valued contradictions / invalid defaults: accepted, but the generated test must fail
    let mut tests = |class: &str, inner: Inner, attr: &str, strukt: &str, fail: &[&str], pass: &[&str]| {
        let (source, decl) = raw_unit(inner, attr, strukt, "");
        out.push(Unit {
            id: String::new(),
            class: class.to_string(),
            features: feats(ALL),
            source,
            expect: Accept,
            expect_errors: vec![],
            tests_must_fail: fail.iter().map(|s| s.to_string()).collect(),
            tests_must_pass: pass.iter().map(|s| s.to_string()).collect(),
            decl,
            nontrivial: true,
        });
    };
    let lu = "should_have_consistent_lower_and_upper_boundaries";
    let lc = "should_have_consistent_len_char_boundaries";
    let dv = "should_have_valid_default_value";
    tests("gen-test:int-expr-crossing", i32_, "validate(greater = KB, less = KA)", "pub struct T(i32);", &[lu], &[]);
    tests("gen-test:int-expr-crossing-inclusive", i32_, "validate(less_or_equal = KA, greater_or_equal = KB)", "pub struct T(i32);", &[lu], &[]);
    tests("gen-test:int-expr-consistent", i32_, "validate(greater = KA, less = KB)", "pub struct T(i32);", &[], &[lu]);
    // bound expressions whose top-level operator binds looser than `>=`: the generated comparison has to group them
    tests("gen-test:int-expr-bitor-upper", i32_, "validate(greater = 1, less = KA | 2)", "pub struct T(i32);", &[], &[lu]);
    tests("gen-test:int-expr-bitand-lower", i32_, "validate(greater_or_equal = KB & 96, less_or_equal = 120)", "pub struct T(i32);", &[], &[lu]);
    tests("gen-test:int-expr-bitops-both", i32_, "validate(greater = KA ^ 1, less = KB | 1)", "pub struct T(i32);", &[], &[lu]);
    tests("gen-test:int-expr-bitops-crossing", i32_, "validate(greater = KB | 1, less = KA & 7)", "pub struct T(i32);", &[lu], &[]);
    tests("gen-test:int-expr-cast-upper", i32_, "validate(greater = 1, less = KB as i64 as i32)", "pub struct T(i32);", &[], &[lu]);
    tests("gen-test:int-expr-if-upper", i32_, "validate(greater = 1, less = if KA > 3 { 9 } else { 1 })", "pub struct T(i32);", &[], &[lu]);
    tests("gen-test:len-expr-bitor", s_, "validate(len_char_min = KA & 7, len_char_max = KB | 1)", "pub struct T(String);", &[], &[lc]);
    tests("gen-test:float-expr-if", f64_, "validate(greater = if KA > 3.0 { 1.0 } else { 9.0 }, less = KB)", "pub struct T(f64);", &[], &[lu]);
    tests("gen-test:int-mixed-literal-expr-crossing", i32_, "validate(greater = 1000, less = KB)", "pub struct T(i32);", &[lu], &[]);
    tests("gen-test:float-expr-crossing", f64_, "validate(greater_or_equal = KB, less = KA)", "pub struct T(f64);", &[lu], &[]);
    tests("gen-test:float-expr-consistent", f64_, "validate(greater_or_equal = KA, less_or_equal = KB)", "pub struct T(f64);", &[], &[lu]);
    tests("gen-test:len-expr-crossing", s_, "validate(len_char_min = KB, len_char_max = KA)", "pub struct T(String);", &[lc], &[]);
    tests("gen-test:len-expr-consistent", s_, "validate(len_char_min = KA, len_char_max = KB)", "pub struct T(String);", &[], &[lc]);
    tests("gen-test:default-invalid-int", i32_, "validate(less = 5), derive(Default), default = 7", "pub struct T(i32);", &[dv], &[]);
    tests("gen-test:default-invalid-expr-int", i32_, "validate(less = KA), derive(Default), default = KB", "pub struct T(i32);", &[dv], &[]);
    tests("gen-test:default-valid-int", i32_, "validate(less = 5), derive(Default), default = 3", "pub struct T(i32);", &[], &[dv]);
    tests("gen-test:default-valid-after-sanitize", i32_, "sanitize(with = |x| x.clamp(0, 4)), validate(less = 5), derive(Default), default = 700", "pub struct T(i32);", &[], &[dv]);
    tests("gen-test:default-invalid-float-nan", f64_, "validate(finite), derive(Default), default = f64::NAN", "pub struct T(f64);", &[dv], &[]);
    tests("gen-test:default-invalid-string", s_, "sanitize(trim), validate(not_empty), derive(Default), default = \"   \"", "pub struct T(String);", &[dv], &[]);
    tests("gen-test:default-valid-string", s_, "sanitize(trim), validate(not_empty), derive(Default), default = \" a \"", "pub struct T(String);", &[], &[dv]);
    tests("gen-test:default-invalid-other", v_, "validate(predicate = |v| !v.is_empty()), derive(Default), default = Vec::new()", "pub struct T(Vec<i32>);", &[dv], &[]);
    tests("gen-test:default-invalid-custom", i32_, "validate(with = fi32::v_small, error = CustomErr), derive(Default), default = 11", "pub struct T(i32);", &[dv], &[]);

    for (i, u) in out.iter_mut().enumerate() {
        u.id = format!("u{:04}", i + 1);
    }
    out
}

/// inject exactly one fault that the documentation says must be refused; `k` rotates through the faults
/// applicable to the declaration
pub fn inject_fault(d: &Decl, k: usize) -> Option<(&'static str, Decl, Vec<String>)> {
    let all = feats(ALL);
    let mut cands: Vec<(&'static str, Decl, Vec<String>)> = vec![];
    let has_val = d.has_validation();
    let with = |f: &dyn Fn(&mut Decl)| {
        let mut x = d.clone();
        f(&mut x);
        x
    };
    let add = |x: &mut Decl, t: Tr| {
        if !x.derives.contains(&t) {
            x.derives.push(t)
        }
    };
    if has_val {
        cands.push(("from-with-validation", with(&|x| { x.derives.retain(|t| *t != Tr::TryFrom); add(x, Tr::From) }), all.clone()));
    } else {
        cands.push(("from-and-tryfrom", with(&|x| { add(x, Tr::From); add(x, Tr::TryFrom) }), all.clone()));
    }
    if d.default.is_none() {
        cands.push(("default-without-default", with(&|x| add(x, Tr::Default)), all.clone()));
    }
    if d.inner.is_float() && !d.std_vals().iter().any(|v| matches!(v, ValSpec::Finite)) {
        cands.push(("float-eq-without-finite", with(&|x| { add(x, Tr::PartialEq); add(x, Tr::Eq) }), all.clone()));
        cands.push(("float-ord-without-finite", with(&|x| { add(x, Tr::PartialEq); add(x, Tr::Eq); add(x, Tr::PartialOrd); add(x, Tr::Ord) }), all.clone()));
    }
    if d.inner.is_float() {
        cands.push(("hash-on-float", with(&|x| add(x, Tr::Hash)), all.clone()));
    }
    if d.inner == Inner::Str {
        cands.push(("lowercase+uppercase", with(&|x| {
            x.sans.retain(|s| !matches!(s, SanSpec::Lower | SanSpec::Upper));
            x.sans.push(SanSpec::Lower);
            x.sans.insert(0, SanSpec::Upper);
        }), all.clone()));
        cands.push(("duplicate-trim", with(&|x| { x.sans.retain(|s| !matches!(s, SanSpec::Trim)); x.sans.push(SanSpec::Trim); x.sans.insert(0, SanSpec::Trim) }), all.clone()));
        cands.push(("copy-on-string", with(&|x| { add(x, Tr::Clone); add(x, Tr::Copy) }), all.clone()));
        if !matches!(d.vals, Vals::Custom(_)) {
            cands.push(("len-crossing", with(&|x| {
                let mut v: Vec<ValSpec> = x.std_vals().iter().filter(|v| !matches!(v, ValSpec::LenCharMin(_) | ValSpec::LenCharMax(_))).cloned().collect();
                v.push(ValSpec::LenCharMax(catalogue::lit_u(2)));
                v.insert(0, ValSpec::LenCharMin(catalogue::lit_u(9)));
                x.vals = Vals::Std(v);
                x.derives.retain(|t| *t != Tr::From);
            }), all.clone()));
        }
    }
    if d.inner.is_int() || d.inner.is_float() {
        let fl = d.inner.is_float();
        if !matches!(d.vals, Vals::Custom(_)) {
            cands.push(("bounds-crossing", with(&|x| {
                let mut v: Vec<ValSpec> = x.std_vals().iter().filter(|v| v.bound().is_none()).cloned().collect();
                let (lo, hi) = if fl { (catalogue::lit_f(9.5), catalogue::lit_f(2.5)) } else { (catalogue::lit_i(9), catalogue::lit_i(2)) };
                v.push(ValSpec::LessEq(hi));
                v.insert(0, ValSpec::GreaterEq(lo));
                x.vals = Vals::Std(v);
                x.derives.retain(|t| *t != Tr::From);
            }), all.clone()));
            cands.push(("duplicate-validator", with(&|x| {
                let mut v: Vec<ValSpec> = x.std_vals().iter().filter(|v| !matches!(v, ValSpec::Less(_))).cloned().collect();
                let (a, b) = if fl { (catalogue::lit_f(90.0), catalogue::lit_f(91.0)) } else { (catalogue::lit_i(90), catalogue::lit_i(91)) };
                v.push(ValSpec::Less(a));
                v.push(ValSpec::Less(b));
                x.vals = Vals::Std(v);
                x.derives.retain(|t| *t != Tr::From);
            }), all.clone()));
        }
        cands.push(("intoiterator-on-number", with(&|x| add(x, Tr::IntoIterator)), all.clone()));
    }
    if d.has(Tr::Serialize) || d.has(Tr::Deserialize) {
        cands.push(("serde-without-feature", d.clone(), feats(&["regex", "arbitrary", "new_unchecked"])));
    }
    if d.has(Tr::Arbitrary) {
        cands.push(("arbitrary-without-feature", d.clone(), feats(&["serde", "regex", "new_unchecked"])));
    }
    if d.new_unchecked {
        cands.push(("new_unchecked-without-feature", d.clone(), feats(&["serde", "regex", "arbitrary"])));
    }
    if cands.is_empty() {
        return None;
    }
    let n = cands.len();
    Some(cands.swap_remove(k % n))
}

// ------------------------------------------------------------------------------------ C05

/// One attack against a declaration: `code` is appended to the unit outside the module holding
/// the declaration. `control` uses the legitimate API in the same shape and must compile.
struct Attack {
    name: &'static str,
    /// expected error codes (any of)
    codes: &'static [&'static str],
    /// requires these traits to be derived for the attack to be meaningful
    needs: &'static [Tr],
    /// `{T}` type name, `{I}` inner type, `{V}` an expression of the inner type, `{MK}` expression building a valid T
    attack: &'static str,
    control: &'static str,
}

const ATTACKS: &[Attack] = &[
    Attack { name: "tuple-construct", codes: &["E0423", "E0603", "E0532"], needs: &[], attack: "pub fn a() { let _t = {T}({V}); }", control: "pub fn a() { let _t = {MK}; }" },
    Attack { name: "tuple-construct-via-module", codes: &["E0423", "E0603", "E0433"], needs: &[], attack: "pub fn a() { let _t = m::__nutype_{T}__::{T}({V}); }", control: "pub fn a() { let _t = {MK}; }" },
    Attack { name: "struct-literal", codes: &["E0451", "E0603", "E0560"], needs: &[], attack: "pub fn a() { let _t = {T} { 0: {V} }; }", control: "pub fn a() { let _t = {MK}; }" },
    Attack { name: "field-read", codes: &["E0616"], needs: &[], attack: "pub fn a() { let t = {MK}; let _x = &t.0; }", control: "pub fn a() { let t = {MK}; let _x = t.into_inner(); }" },
    Attack { name: "field-write", codes: &["E0616"], needs: &[], attack: "pub fn a() { let mut t = {MK}; t.0 = {V}; }", control: "pub fn a() { let mut t = {MK}; t = {MK}; let _ = t; }" },
    Attack { name: "destructure", codes: &["E0532", "E0603", "E0451"], needs: &[], attack: "pub fn a() { let t = {MK}; let {T}(_x) = t; }", control: "pub fn a() { let t = {MK}; let _x = t.into_inner(); }" },
    Attack { name: "destructure-ref-mut", codes: &["E0532", "E0603", "E0451"], needs: &[], attack: "pub fn a() { let mut t = {MK}; let {T}(ref mut x) = t; *x = {V}; }", control: "pub fn a() { let t = {MK}; let _x = t.into_inner(); }" },
    Attack { name: "assign-through-deref", codes: &["E0594", "E0596"], needs: &[Tr::Deref], attack: "pub fn a() { let mut t = {MK}; *t = {V}; }", control: "pub fn a() { let t = {MK}; let _x: &{I} = &*t; }" },
    Attack { name: "deref-mut-call", codes: &["E0599", "E0277"], needs: &[Tr::Deref], attack: "pub fn a() { let mut t = {MK}; let _x: &mut {I} = ::core::ops::DerefMut::deref_mut(&mut t); }", control: "pub fn a() { let t = {MK}; let _x: &{I} = ::core::ops::Deref::deref(&t); }" },
    Attack { name: "mem-replace-through-deref", codes: &["E0596", "E0594"], needs: &[Tr::Deref], attack: "pub fn a() { let mut t = {MK}; let _old = ::core::mem::replace(&mut *t, {V}); }", control: "pub fn a() { let t = {MK}; let _x: {I} = ::core::clone::Clone::clone(&*t); }" },
    Attack { name: "as-mut", codes: &["E0599", "E0277", "E0596"], needs: &[Tr::AsRef], attack: "pub fn a() { let mut t = {MK}; let _x: &mut {I} = ::core::convert::AsMut::as_mut(&mut t); }", control: "pub fn a() { let t = {MK}; let _x = ::core::convert::AsRef::<{R}>::as_ref(&t); }" },
    Attack { name: "borrow-mut", codes: &["E0599", "E0277", "E0596"], needs: &[Tr::Borrow], attack: "pub fn a() { let mut t = {MK}; let _x: &mut {I} = ::core::borrow::BorrowMut::borrow_mut(&mut t); }", control: "pub fn a() { let t = {MK}; let _x: &{I} = ::core::borrow::Borrow::borrow(&t); }" },
    Attack { name: "call-sanitize", codes: &["E0624", "E0599", "E0616"], needs: &[], attack: "pub fn a() { let _x = {T}::__sanitize__({V}); }", control: "pub fn a() { let _t = {MK}; }" },
    Attack { name: "call-validate", codes: &["E0624", "E0599", "E0616"], needs: &[], attack: "pub fn a() { let v: {I} = {V}; let _x = {T}::__validate__(&v); }", control: "pub fn a() { let _t = {MK}; }" },
    Attack { name: "new-unchecked-without-flag", codes: &["E0599"], needs: &[], attack: "pub fn a() { let _t = unsafe { {T}::new_unchecked({V}) }; }", control: "pub fn a() { let _t = {MK}; }" },
    Attack { name: "default-without-default", codes: &["E0599", "E0277"], needs: &[], attack: "pub fn a() { let _t: {TY} = ::core::default::Default::default(); }", control: "pub fn a() { let _t = {MK}; }" },
    Attack { name: "client-inherent-impl-constructs", codes: &["E0423", "E0603", "E0532"], needs: &[], attack: "impl {T} { pub fn evil() -> Self { {T}({V}) } }", control: "impl {T} { pub fn fine() -> Self { {MK} } }" },
    Attack { name: "transmute-free-cast", codes: &["E0605", "E0604", "E0606"], needs: &[], attack: "pub fn a() { let v: {I} = {V}; let _t = v as {TY}; }", control: "pub fn a() { let _t = {MK}; }" },
    Attack { name: "iter-mut", codes: &["E0596", "E0599"], needs: &[Tr::Deref], attack: "pub fn a() { let mut t = {MK}; for x in t.iter_mut() { let _ = x; } }", control: "pub fn a() { let t = {MK}; for x in t.iter() { let _ = x; } }" },
    Attack { name: "for-in-mut-ref", codes: &["E0277"], needs: &[Tr::IntoIterator], attack: "pub fn a() { let mut t = {MK}; for x in &mut t { let _ = x; } }", control: "pub fn a() { let t = {MK}; for x in &t { let _ = x; } }" },
    Attack { name: "push-through-deref", codes: &["E0596"], needs: &[Tr::Deref], attack: "pub fn a() { let mut t = {MK}; t.push(Default::default()); }", control: "pub fn a() { let t = {MK}; let _n = t.len(); }" },
    Attack { name: "get-mut-through-deref", codes: &["E0596"], needs: &[Tr::Deref], attack: "pub fn a() { let mut t = {MK}; if let Some(x) = t.get_mut(0) { let _ = x; } }", control: "pub fn a() { let t = {MK}; if let Some(x) = t.get(0) { let _ = x; } }" },
];

struct C05Base {
    name: &'static str,
    inner_ty: &'static str,
    as_ref_ty: &'static str,
    value: &'static str,
    attr: &'static str,
    strukt: &'static str,
    tname: &'static str,
    /// instantiation for generic types, e.g. "W::<i32>"
    mk: &'static str,
    derives: &'static [Tr],
    collection: bool,
}

fn c05_bases() -> Vec<C05Base> {
    vec![
        C05Base { name: "int-validated", inner_ty: "i32", as_ref_ty: "i32", value: "7", attr: "validate(greater = 0, less = 100), derive(Debug, Clone, Copy, PartialEq, Eq, PartialOrd, Ord, FromStr, AsRef, Deref, TryFrom, Into, Hash, Borrow, Display, Serialize, Deserialize)", strukt: "pub struct T(i32);", tname: "T", mk: "T::try_new(7).unwrap()", derives: &[Tr::Deref, Tr::AsRef, Tr::Borrow], collection: false },
        C05Base { name: "int-plain", inner_ty: "u8", as_ref_ty: "u8", value: "7", attr: "sanitize(with = |x| x.clamp(1, 9)), derive(Debug, Clone, AsRef, Deref, Borrow, From, Into)", strukt: "pub struct T(u8);", tname: "T", mk: "T::new(7)", derives: &[Tr::Deref, Tr::AsRef, Tr::Borrow], collection: false },
        C05Base { name: "float-finite", inner_ty: "f64", as_ref_ty: "f64", value: "7.5", attr: "validate(finite, less = 100.0), derive(Debug, Clone, Copy, PartialEq, Eq, PartialOrd, Ord, AsRef, Deref, Borrow, TryFrom, Into)", strukt: "pub struct T(f64);", tname: "T", mk: "T::try_new(7.5).unwrap()", derives: &[Tr::Deref, Tr::AsRef, Tr::Borrow], collection: false },
        C05Base { name: "string-validated", inner_ty: "String", as_ref_ty: "str", value: "String::from(\"ab\")", attr: "sanitize(trim, lowercase), validate(not_empty, len_char_max = 9), derive(Debug, Clone, PartialEq, Eq, Hash, AsRef, Deref, Borrow, TryFrom, Into, FromStr, Display)", strukt: "pub struct T(String);", tname: "T", mk: "T::try_new(\"ab\").unwrap()", derives: &[Tr::Deref, Tr::AsRef, Tr::Borrow], collection: false },
        C05Base { name: "vec-validated", inner_ty: "Vec<i32>", as_ref_ty: "Vec<i32>", value: "vec![1, 2]", attr: "sanitize(with = |mut v| { v.sort(); v }), validate(predicate = |v| !v.is_empty()), derive(Debug, Clone, PartialEq, AsRef, Deref, Borrow, TryFrom, Into, IntoIterator)", strukt: "pub struct T(Vec<i32>);", tname: "T", mk: "T::try_new(vec![1, 2]).unwrap()", derives: &[Tr::Deref, Tr::AsRef, Tr::Borrow, Tr::IntoIterator], collection: true },
        C05Base { name: "generic-vec", inner_ty: "Vec<i32>", as_ref_ty: "Vec<i32>", value: "vec![1, 2]", attr: "sanitize(with = |mut v| { v.sort(); v }), validate(predicate = |v| !v.is_empty()), derive(Debug, Clone, PartialEq, AsRef, Deref, Borrow, TryFrom, IntoIterator)", strukt: "pub struct T<E: Ord + Clone>(Vec<E>);", tname: "T", mk: "T::<i32>::try_new(vec![1, 2]).unwrap()", derives: &[Tr::Deref, Tr::AsRef, Tr::Borrow, Tr::IntoIterator], collection: true },
        C05Base { name: "int-sanitize-only-tryfrom", inner_ty: "i32", as_ref_ty: "i32", value: "7", attr: "sanitize(with = |x| x.clamp(0, 100)), derive(Debug, Clone, PartialEq, TryFrom, FromStr, AsRef, Deref, Borrow, Default, Serialize, Deserialize, Arbitrary), default = 500", strukt: "pub struct T(i32);", tname: "T", mk: "T::new(7)", derives: &[Tr::Deref, Tr::AsRef, Tr::Borrow], collection: false },
        C05Base { name: "string-sanitize-only-tryfrom", inner_ty: "String", as_ref_ty: "str", value: "String::from(\"ab\")", attr: "sanitize(trim, lowercase), derive(Debug, Clone, PartialEq, TryFrom, FromStr, AsRef, Deref, Borrow, Default, Serialize, Deserialize, Arbitrary), default = \" X \"", strukt: "pub struct T(String);", tname: "T", mk: "T::new(\"ab\")", derives: &[Tr::Deref, Tr::AsRef, Tr::Borrow], collection: false },
        C05Base { name: "float-sanitize-only-from", inner_ty: "f64", as_ref_ty: "f64", value: "7.5", attr: "sanitize(with = |x| x.clamp(0.0, 1.0)), derive(Debug, Clone, Copy, PartialEq, From, FromStr, AsRef, Deref, Borrow, Default, Deserialize, Arbitrary), default = 5.0", strukt: "pub struct T(f64);", tname: "T", mk: "T::new(7.5)", derives: &[Tr::Deref, Tr::AsRef, Tr::Borrow], collection: false },
        C05Base { name: "vec-sanitize-only-tryfrom", inner_ty: "Vec<i32>", as_ref_ty: "Vec<i32>", value: "vec![2, 1]", attr: "sanitize(with = |mut v| { v.sort(); v }), derive(Debug, Clone, PartialEq, TryFrom, AsRef, Deref, Borrow, IntoIterator, Default, Deserialize, Arbitrary), default = vec![3, 1]", strukt: "pub struct T(Vec<i32>);", tname: "T", mk: "T::new(vec![2, 1])", derives: &[Tr::Deref, Tr::AsRef, Tr::Borrow, Tr::IntoIterator], collection: true },
        C05Base { name: "minimal", inner_ty: "i64", as_ref_ty: "i64", value: "7", attr: "validate(predicate = |x| *x != 0)", strukt: "pub struct T(i64);", tname: "T", mk: "T::try_new(7).unwrap()", derives: &[], collection: false },
        C05Base { name: "const-fn", inner_ty: "i16", as_ref_ty: "i16", value: "7", attr: "const_fn, validate(greater = 0), derive(Debug, Deref, AsRef, Borrow)", strukt: "pub struct T(i16);", tname: "T", mk: "T::try_new(7).unwrap()", derives: &[Tr::Deref, Tr::AsRef, Tr::Borrow], collection: false },
    ]
}

pub fn c05_units(seed: u64, thorough: bool) -> Vec<Unit> {
    let mut out = vec![];
    let mk_unit = |class: String, features: &[&str], body: String, decl: String, expect: Expect, codes: &[&str], nontrivial: bool| Unit {
        id: String::new(),
        class,
        features: feats(features),
        source: body,
        expect,
        expect_errors: codes.iter().map(|s| s.to_string()).collect(),
        tests_must_fail: vec![],
        tests_must_pass: vec![],
        decl,
        nontrivial,
    };
    let header = "#![allow(unused, non_snake_case, non_camel_case_types, clippy::all)]\nuse crate::prelude::*;\n";
    for b in c05_bases() {
        let decl = format!("#[nutype({})]\n{}", b.attr, b.strukt);
        let module = format!("pub mod m {{\n    use nutype::nutype;\n    use crate::prelude::*;\n    {}\n}}\nuse m::*;\n", decl.replace('\n', "\n    "));
        for a in ATTACKS {
            if !a.needs.iter().all(|t| b.derives.contains(t)) {
                continue;
            }
            let coll_only = matches!(a.name, "iter-mut" | "push-through-deref" | "get-mut-through-deref" | "for-in-mut-ref");
            if coll_only && !b.collection {
                continue;
            }
            if b.name == "generic-vec" && a.name.starts_with("client-inherent") {
                continue;
            }
            if a.name == "default-without-default" && b.attr.contains("default =") {
                continue;
            }
            let subst = |t: &str| {
                t.replace("{TY}", if b.name == "generic-vec" { "T<i32>" } else { b.tname })
                    .replace("{T}", b.tname)
                    .replace("{I}", b.inner_ty)
                    .replace("{R}", b.as_ref_ty)
                    .replace("{V}", b.value)
                    .replace("{MK}", b.mk)
            };
            let nt = !a.needs.is_empty();
            out.push(mk_unit(format!("attack:{}:{}", a.name, b.name), ALL, format!("{header}{module}{}\n", subst(a.attack)), decl.clone(), Expect::Reject, a.codes, nt));
            out.push(mk_unit(format!("control:{}:{}", a.name, b.name), ALL, format!("{header}{module}{}\n", subst(a.control)), decl.clone(), Expect::Accept, &[], nt));
        }
    }
    // attributes written with a path on the annotated struct: a built-in derive spelled in full would be expanded
    // by rustc on the *generated* struct and hand out unguarded constructors (Default, Clone of a bare tuple);
    // tool attributes are foreign attributes like any other
    for (fam, ty, guard) in [("int", "i32", "validate(greater = 0)"), ("string", "String", "sanitize(trim), validate(not_empty)"), ("float", "f64", "validate(finite)"), ("other", "Vec<i32>", "validate(predicate = |v| !v.is_empty())")] {
        for (an, attr_line) in [
            ("core-prelude-derive-default", "#[::core::prelude::v1::derive(Default)]"),
            ("std-prelude-derive-default", "#[::std::prelude::v1::derive(Default)]"),
            ("core-prelude-derive-unrooted", "#[core::prelude::v1::derive(Default, Clone)]"),
            ("tool-attribute", "#[rustfmt::skip]"),
            ("clippy-attribute", "#[clippy::has_significant_drop]"),
        ] {
            let decl = format!("#[nutype({guard})]\n{attr_line}\npub struct T({ty});");
            let module = format!("pub mod m {{\n    use nutype::nutype;\n    use crate::prelude::*;\n    {}\n}}\nuse m::*;\n", decl.replace('\n', "\n    "));
            out.push(mk_unit(format!("attack:path-attribute:{an}:{fam}"), ALL, format!("{header}{module}pub fn a() {{ let _t: T = ::core::default::Default::default(); }}\n"), decl.clone(), Expect::Reject, &[], true));
        }
    }
    // seed-dependent: the same attack catalogue against proptest-generated declarations
    let rnd = catalogue::finalize(crate::random::random_decls(seed ^ 0xC05, if thorough { 160 } else { 14 }), "x");
    // (the attack templates name the type `T`: generic declarations are covered by the structural scan instead)
    for (ri, d) in rnd.iter().filter(|d| d.generic == Generic::None && d.inner != Inner::CowF32).enumerate() {
        let mut d = d.clone();
        d.type_name = "T".into();
        d.new_unchecked = false;
        let (inner_ty, as_ref_ty, value, collection) = match d.inner {
            Inner::Str => ("String", "str", "String::from(\"ab\")", false),
            Inner::Int(t) => (t.name(), t.name(), "7", false),
            Inner::F32 => ("f32", "f32", "7.5", false),
            Inner::F64 => ("f64", "f64", "7.5", false),
            Inner::VecI32 => ("Vec<i32>", "Vec<i32>", "vec![1, 2]", true),
            Inner::Point => ("Point", "Point", "Point { x: 1, y: 2 }", false),
            Inner::CowF32 => unreachable!("filtered out above"),
            Inner::VecU8 => ("Vec<u8>", "Vec<u8>", "vec![1, 2]", true),
        };
        let mk = if d.has_validation() { format!("T::try_new({value}).unwrap()") } else { format!("T::new({value})") };
        let decl = d.decl_text();
        // the declaration with everything it references, inside `pub mod m`
        let inner_src = unit_source(&d, false, "");
        let inner_src: String = inner_src.lines().filter(|l| !l.starts_with("#![")).collect::<Vec<_>>().join("\n    ");
        let module = format!("pub mod m {{\n    {inner_src}\n}}\nuse m::*;\n");
        for a in ATTACKS {
            if !a.needs.iter().all(|t| d.has(*t)) {
                continue;
            }
            let coll_only = matches!(a.name, "iter-mut" | "push-through-deref" | "get-mut-through-deref" | "for-in-mut-ref");
            if coll_only && !collection {
                continue;
            }
            if a.name == "default-without-default" && d.has(Tr::Default) {
                continue;
            }
            let subst = |t: &str| t.replace("{TY}", "T").replace("{T}", "T").replace("{I}", inner_ty).replace("{R}", as_ref_ty).replace("{V}", value).replace("{MK}", &mk);
            out.push(mk_unit(format!("attack:{}:random{ri}", a.name), ALL, format!("{header}{module}{}\n", subst(a.attack)), decl.clone(), Expect::Reject, a.codes, !a.needs.is_empty()));
            out.push(mk_unit(format!("control:{}:random{ri}", a.name), ALL, format!("{header}{module}{}\n", subst(a.control)), decl.clone(), Expect::Accept, &[], !a.needs.is_empty()));
        }
    }

    // new_unchecked: exists only with feature AND flag, and is unsafe
    let nu_decl_flag = "#[nutype(new_unchecked, validate(greater = 0))]\npub struct T(i32);";
    let nu_decl_noflag = "#[nutype(validate(greater = 0))]\npub struct T(i32);";
    let module = |d: &str| format!("pub mod m {{\n    use nutype::nutype;\n    {}\n}}\nuse m::*;\n", d.replace('\n', "\n    "));
    out.push(mk_unit("new_unchecked:flag+feature:unsafe-block".into(), ALL, format!("{header}{}pub fn a() {{ let _t = unsafe {{ T::new_unchecked(-1) }}; }}\n", module(nu_decl_flag)), nu_decl_flag.into(), Expect::Accept, &[], true));
    out.push(mk_unit("new_unchecked:flag+feature:no-unsafe".into(), ALL, format!("{header}{}pub fn a() {{ let _t = T::new_unchecked(-1); }}\n", module(nu_decl_flag)), nu_decl_flag.into(), Expect::Reject, &["E0133"], true));
    out.push(mk_unit("new_unchecked:flag+feature:fn-pointer-coercion".into(), ALL, format!("{header}{}pub fn a() {{ let f: fn(i32) -> T = T::new_unchecked; let _t = f(-1); }}\n", module(nu_decl_flag)), nu_decl_flag.into(), Expect::Reject, &["E0308"], true));
    // every shape of declaration that can carry the flag: the generated function must be `unsafe` in all of them
    for (shape, d, ctor_call) in [
        ("validated", "#[nutype(new_unchecked, validate(greater = 0))]\npub struct T(i32);", "T::new_unchecked(-1)"),
        ("sanitize-only", "#[nutype(new_unchecked, sanitize(with = |x| x.clamp(0, 9)))]\npub struct T(i32);", "T::new_unchecked(-1)"),
        ("no-guards", "#[nutype(new_unchecked)]\npub struct T(u8);", "T::new_unchecked(1)"),
        ("string-sanitize-only", "#[nutype(new_unchecked, sanitize(trim, lowercase))]\npub struct T(String);", "T::new_unchecked(String::from(\" X \"))"),
        ("string-validated", "#[nutype(sanitize(trim), new_unchecked, validate(not_empty))]\npub struct T(String);", "T::new_unchecked(String::new())"),
        ("float-finite", "#[nutype(validate(finite), new_unchecked, derive(PartialEq, Eq, PartialOrd, Ord))]\npub struct T(f64);", "T::new_unchecked(f64::NAN)"),
        ("other-sanitize-only", "#[nutype(new_unchecked, sanitize(with = |mut v| { v.sort(); v }))]\npub struct T(Vec<i32>);", "T::new_unchecked(vec![2, 1])"),
        ("other-validated", "#[nutype(new_unchecked, validate(predicate = |v| !v.is_empty()))]\npub struct T(Vec<i32>);", "T::new_unchecked(vec![])"),
        ("generic", "#[nutype(new_unchecked, sanitize(with = |mut v| { v.sort(); v }))]\npub struct T<E: Ord>(Vec<E>);", "T::<i32>::new_unchecked(vec![2, 1])"),
        ("const-fn-validated", "#[nutype(const_fn, new_unchecked, validate(greater = 0))]\npub struct T(i32);", "T::new_unchecked(-1)"),
        ("const-fn-no-guards", "#[nutype(const_fn, new_unchecked)]\npub struct T(i32);", "T::new_unchecked(-1)"),
        ("custom-validated", "#[nutype(new_unchecked, validate(with = check, error = CustomErr))]\npub struct T(i32);\nfn check(_x: &i32) -> Result<(), CustomErr> { Ok(()) }", "T::new_unchecked(-1)"),
    ] {
        let module = format!("pub mod m {{\n    use nutype::nutype;\n    use crate::prelude::*;\n    {}\n}}\nuse m::*;\n", d.replace('\n', "\n    "));
        out.push(mk_unit(format!("new_unchecked:shape:{shape}:unsafe-block"), ALL, format!("{header}{module}pub fn a() {{ let _t = unsafe {{ {ctor_call} }}; }}\n"), d.to_string(), Expect::Accept, &[], true));
        out.push(mk_unit(format!("new_unchecked:shape:{shape}:no-unsafe"), ALL, format!("{header}{module}pub fn a() {{ let _t = {ctor_call}; }}\n"), d.to_string(), Expect::Reject, &["E0133"], true));
    }
    out.push(mk_unit("new_unchecked:no-flag+feature".into(), ALL, format!("{header}{}pub fn a() {{ let _t = unsafe {{ T::new_unchecked(-1) }}; }}\n", module(nu_decl_noflag)), nu_decl_noflag.into(), Expect::Reject, &["E0599"], true));
    out.push(mk_unit("new_unchecked:flag+no-feature".into(), &["serde"], format!("{header}{}pub fn a() {{ }}\n", module(nu_decl_flag)), nu_decl_flag.into(), Expect::Reject, &["feature `new_unchecked`"], true));
    out.push(mk_unit("new_unchecked:no-flag+no-feature".into(), &["serde"], format!("{header}{}pub fn a() {{ let _t = unsafe {{ T::new_unchecked(-1) }}; }}\n", module(nu_decl_noflag)), nu_decl_noflag.into(), Expect::Reject, &["E0599"], true));
    // visibility of the type, its error type and its parse-error type
    for (vis, outside_ok) in [("", false), ("pub(self)", false), ("pub(super)", true), ("pub(crate)", true), ("pub", true)] {
        let d = format!("#[nutype(validate(greater = 0), derive(Debug, FromStr))]\n{vis} struct T(i32);");
        let module = format!("pub mod outer {{\n    pub mod m {{\n        use nutype::nutype;\n        {}\n    }}\n}}\n", d.replace('\n', "\n        "));
        for (what, path) in [("type", "outer::m::T"), ("error-type", "outer::m::TError"), ("parse-error-type", "outer::m::TParseError")] {
            // named from the module *containing* `outer` (two levels up from the declaration)
            let exp = if vis == "pub" || vis == "pub(crate)" { Expect::Accept } else { Expect::Reject };
            let _ = outside_ok;
            out.push(mk_unit(format!("visibility:{what}:{}", if vis.is_empty() { "private" } else { vis }), ALL, format!("{header}{module}pub fn a(_x: Option<{path}>) {{ }}\n"), d.clone(), exp, if exp == Expect::Reject { &["E0603"] } else { &[] }, true));
        }
    }
    for (i, u) in out.iter_mut().enumerate() {
        u.id = format!("a{:04}", i + 1);
    }
    out
}

// ------------------------------------------------------------------------------------ C15

/// int / float / other declarations of the run-time catalogue, rendered for a `#![no_std]` crate
pub fn c15_units(seed: u64, thorough: bool) -> Vec<Unit> {
    let cat = catalogue::finalize(catalogue::catalogue(), "n");
    let mut out = vec![];
    // the other `alloc` collections as inner types (the catalogue has Vec only), with every trait an any-type
    // newtype can derive - IntoIterator in particular, whose impl names the collection's iterator types
    for (name, path, ty, gen_ty) in [
        ("btreeset", "alloc::collections::BTreeSet", "BTreeSet<i32>", "BTreeSet<T>"),
        ("btreemap", "alloc::collections::BTreeMap", "BTreeMap<i32, i32>", "BTreeMap<T, i32>"),
        ("vecdeque", "alloc::collections::VecDeque", "VecDeque<i32>", "VecDeque<T>"),
        ("linkedlist", "alloc::collections::LinkedList", "LinkedList<i32>", "LinkedList<T>"),
        ("binaryheap", "alloc::collections::BinaryHeap", "BinaryHeap<i32>", "BinaryHeap<T>"),
        ("box-slice", "alloc::boxed::Box", "Box<[i32]>", "Box<[T]>"),
        ("string-in-vec", "alloc::string::String", "alloc::vec::Vec<String>", "alloc::vec::Vec<(T, String)>"),
    ] {
        let header = format!("#![allow(unused, non_snake_case, non_camel_case_types, clippy::all)]\nuse nutype::nutype;\nuse crate::prelude::*;\nuse {path};\n");
        let iter = if name == "string-in-vec" || name == "box-slice" { "" } else { ", IntoIterator" };
        for (kind, decl) in [
            ("plain", format!("#[nutype(derive(Debug, Clone, AsRef, Deref, Into, From{iter}))]\npub struct T({ty});")),
            ("validated", format!("#[nutype(validate(predicate = |c| c.len() < 100), derive(Debug, Clone, AsRef, Deref, TryFrom{iter}))]\npub struct T({ty});")),
            ("generic", format!("#[nutype(derive(Debug, Clone, AsRef, Deref{iter}))]\npub struct W<T: Ord>({gen_ty});")),
            ("serde", format!("#[nutype(derive(Debug, Clone, Serialize, Deserialize{iter}))]\npub struct T({ty});")),
        ] {
            if kind == "serde" && name == "binaryheap" {
                continue; // BinaryHeap has no Clone-free serde story worth asserting here
            }
            out.push(Unit {
                id: String::new(),
                class: format!("no_std:collection:{name}:{kind}"),
                features: if kind == "serde" { feats(&["serde"]) } else { feats(&[]) },
                source: format!("{header}{decl}\n"),
                expect: Expect::Accept,
                expect_errors: vec![],
                tests_must_fail: vec![],
                tests_must_pass: vec![],
                decl,
                nontrivial: true,
            });
        }
    }
    for d in cat.iter() {
        if d.inner == Inner::Str {
            continue;
        }
        // keep a covering sample: every tag class, thinned
        let heavy = d.derives.len() > 8;
        let tag = d.tags.first().cloned().unwrap_or_default();
        let keep = heavy || tag.contains("single-trait") || tag.contains("default") || tag.contains("twin") || tag.contains("perm") || tag.contains("float-arb:unit") || tag.contains("int-narrow:256");
        if !keep {
            continue;
        }
        let mut d = d.clone();
        d.type_name = if d.generic == Generic::None { "T".into() } else { "W".into() };
        d.twin_of = None;
        // regex / LazyLock are std-only and string-only: not in this family
        let irregular = d.derives.iter().filter(|t| !matches!(t, Tr::Debug | Tr::Clone | Tr::Copy | Tr::PartialEq | Tr::PartialOrd | Tr::Hash)).count();
        out.push(Unit {
            id: String::new(),
            class: format!("no_std:{}", tag.split(':').next().unwrap_or("")),
            // the smallest feature set the unit needs: `arbitrary` links std into the crate graph, which
            // would let std-only inherent methods resolve, so only units deriving Arbitrary get it
            features: if d.has(Tr::Arbitrary) {
                feats(&["serde", "arbitrary"])
            } else if d.has(Tr::Serialize) || d.has(Tr::Deserialize) {
                feats(&["serde"])
            } else {
                feats(&[])
            },
            source: unit_source(&d, true, ""),
            expect: Expect::Accept,
            expect_errors: vec![],
            tests_must_fail: vec![],
            tests_must_pass: vec![],
            decl: d.decl_text(),
            nontrivial: irregular >= 1,
        });
    }
    // seed-dependent random declarations (non-string families)
    let rnd = catalogue::finalize(crate::random::random_decls(seed ^ 0xC15, if thorough { 800 } else { 160 }), "m");
    for d in rnd.iter().filter(|d| d.inner != Inner::Str) {
        let mut d = d.clone();
        d.type_name = if d.generic == Generic::None { "T".into() } else { "W".into() };
        let irregular = d.derives.iter().filter(|t| !matches!(t, Tr::Debug | Tr::Clone | Tr::Copy | Tr::PartialEq | Tr::PartialOrd | Tr::Hash)).count();
        out.push(Unit {
            id: String::new(),
            class: "no_std:random".into(),
            features: {
                let mut f: Vec<&str> = if d.has(Tr::Arbitrary) { vec!["serde", "arbitrary"] } else if d.has(Tr::Serialize) || d.has(Tr::Deserialize) { vec!["serde"] } else { vec![] };
                if d.new_unchecked {
                    f.push("new_unchecked");
                }
                feats(&f)
            },
            source: unit_source(&d, true, ""),
            expect: Expect::Accept,
            expect_errors: vec![],
            tests_must_fail: vec![],
            tests_must_pass: vec![],
            decl: d.decl_text(),
            nontrivial: irregular >= 1,
        });
    }
    for (i, u) in out.iter_mut().enumerate() {
        u.id = format!("n{:04}", i + 1);
    }
    out
}
