//! C02 corpus: bound *spellings* and attribute *layouts*. Every unit carries the text
//! handed to the macro and the text placed in a neutral `const`, so rustc — not the
//! generator — computes the denoted value. A unit may be rejected by the macro/rustc
//! (allowed outcome); if accepted, the constructor must enforce exactly the written rules.

use crate::catalogue::*;
use crate::decl::*;
use proptest::prelude::*;
use proptest::strategy::ValueTree;
use proptest::test_runner::{Config, RngAlgorithm, TestRng, TestRunner};

/// (class, macro text, neutral text) for an integer bound type named `n`
pub fn int_spelling_texts(t: IntTy) -> Vec<(String, String, String)> {
    let n = t.name();
    let mut v: Vec<(&str, String, String)> = vec![
        ("lit", "7".into(), "7".into()),
        ("lit-underscore", "1_0".into(), "10".into()),
        ("lit-underscore-multi", "1__0_".into(), "10".into()),
        ("lit-hex", "0x10".into(), "0x10".into()),
        ("lit-bin", "0b101".into(), "0b101".into()),
        ("lit-oct", "0o17".into(), "0o17".into()),
        ("not-lit", "!0".into(), "!0".into()),
        ("not-lit-7", "!7".into(), "!7".into()),
        ("not-const", "!KA".into(), "!KA".into()),
        ("neg-neg-lit", "-(-7)".into(), "-(-7)".into()),
        ("lit-suffixed", format!("7{n}"), format!("7{n}")),
        ("lit-suffixed-minus-const", format!("70{n} - KA"), format!("70{n} - KA")),
        ("lit-leading-shift", "1 << 4".into(), "1 << 4".into()),
        ("lit-leading-arith", "5 + 3".into(), "5 + 3".into()),
        ("lit-leading-mul", "5 * KA".into(), "5 * KA".into()),
        ("lit-float-for-int", "5.0".into(), "5".into()),
        ("lit-exp-for-int", "1e2".into(), "100".into()),
        ("lit-plus", "+5".into(), "5".into()),
        ("lit-out-of-range", "99999999999999999999999999999999999999999".into(), "0".into()),
        ("lit-type-max", format!("{}", if t == IntTy::U128 { "340282366920938463463374607431768211455".to_string() } else { t.max_v().to_string() }), format!("{n}::MAX")),
        ("lit-type-max-underscored", format!("{}_", if t == IntTy::U128 { "340282366920938463463374607431768211455".to_string() } else { t.max_v().to_string() }), format!("{n}::MAX")),
        ("lit-type-min", t.min_v().to_string(), format!("{n}::MIN")),
        ("lit-type-max-minus-one", format!("{}", if t == IntTy::U128 { "340282366920938463463374607431768211454".to_string() } else { (t.max_v() - 1).to_string() }), format!("{n}::MAX - 1")),
        ("lit-type-min-plus-one", (t.min_v() + 1).to_string(), format!("{n}::MIN + 1")),
        ("const", "KA".into(), "KA".into()),
        ("mod-const", "k::KM".into(), "k::KM".into()),
        ("paren", "(KA)".into(), "(KA)".into()),
        ("paren-nested-arith", "((KA + 1))".into(), "((KA + 1))".into()),
        ("arith", "KA + 1".into(), "KA + 1".into()),
        ("arith-paren", "(KA + 1) * 2".into(), "(KA + 1) * 2".into()),
        ("arith-sub", "KB - KA".into(), "KB - KA".into()),
        ("shift", "ONE << 4".into(), "ONE << 4".into()),
        ("bitor", "KA | 2".into(), "KA | 2".into()),
        ("bitand", "KB & 0x3c".into(), "KB & 0x3c".into()),
        ("rem", "KB % 7".into(), "KB % 7".into()),
        ("cast", format!("KA as u8 as {n}"), format!("KA as u8 as {n}")),
        ("type-max", format!("{n}::MAX"), format!("{n}::MAX")),
        ("type-min", format!("{n}::MIN"), format!("{n}::MIN")),
        ("type-max-arith", format!("{n}::MAX - 3"), format!("{n}::MAX - 3")),
        ("block", "{ 5 }".into(), "{ 5 }".into()),
        ("block-const", "{ KA }".into(), "{ KA }".into()),
        ("if-expr", "if KA > 3 { 7 } else { 8 }".into(), "if KA > 3 { 7 } else { 8 }".into()),
        ("match-expr", "match KA { 5 => 11, _ => 12 }".into(), "match KA { 5 => 11, _ => 12 }".into()),
        ("const-fn-call", "kmax()".into(), "kmax()".into()),
        ("method-call", "KA.pow(2)".into(), "KA.pow(2)".into()),
        ("method-wrapping", "KA.wrapping_add(3)".into(), "KA.wrapping_add(3)".into()),
        ("index", "[1, 2, 9][2]".into(), "[1, 2, 9][2]".into()),
        ("not", "!0 & 7".into(), "!0 & 7".into()),
    ];
    if t.signed() {
        v.extend([
            ("neg-lit", "-5".to_string(), "-5".to_string()),
            ("neg-lit-spaced", "- 5".to_string(), "-5".to_string()),
            ("neg-lit-underscore", "-1_0".to_string(), "-10".to_string()),
            ("neg-const", "-KA".to_string(), "-KA".to_string()),
            ("neg-const-spaced", "- KA".to_string(), "-KA".to_string()),
            ("neg-paren-const", "-(KA)".to_string(), "-(KA)".to_string()),
            ("paren-neg-const", "(-KA)".to_string(), "(-KA)".to_string()),
            ("neg-mod-const", "-k::KM".to_string(), "-k::KM".to_string()),
            ("neg-call", "-kmax()".to_string(), "-kmax()".to_string()),
            ("neg-method", "-KA.pow(2)".to_string(), "-KA.pow(2)".to_string()),
            ("neg-arith", "-KA + 1".to_string(), "-KA + 1".to_string()),
            ("double-neg", "--5".to_string(), "5".to_string()),
            ("neg-neg-const", "-(-KA)".to_string(), "-(-KA)".to_string()),
            ("neg-lit-arith", "-5 + KB".to_string(), "-5 + KB".to_string()),
        ]);
    } else {
        v.push(("neg-lit-unsigned", "-5".to_string(), "0".to_string()));
        v.push(("neg-const-unsigned", "-KA".to_string(), "0".to_string()));
    }
    v.into_iter().map(|(a, b, c)| (a.to_string(), b, c)).collect()
}

pub fn float_spelling_texts(ty: &str) -> Vec<(String, String, String)> {
    let v: Vec<(&str, String, String)> = vec![
        ("lit", "7.5".into(), "7.5".into()),
        ("lit-int-for-float", "5".into(), "5.0".into()),
        ("lit-neg-int-for-float", "-5".into(), "-5.0".into()),
        ("lit-exp", "1e3".into(), "1e3".into()),
        ("lit-exp-neg", "-2.5e-3".into(), "-2.5e-3".into()),
        ("lit-underscore", "1_000.5".into(), "1000.5".into()),
        ("lit-neg-zero", "-0.0".into(), "-0.0".into()),
        ("lit-trailing-dot", "5.".into(), "5.0".into()),
        ("lit-suffixed", format!("7.5{ty}"), format!("7.5{ty}")),
        ("lit-int-suffixed", format!("7{ty}"), format!("7{ty}")),
        ("lit-rounding", "16777217".into(), "16777217.0".into()),
        // many-digit literals a hair beside an f32 rounding midpoint: the value is what the inner type's own
        // literal parsing gives (one rounding), not a detour through a wider type
        ("lit-f32-midpoint-above", "16777217.0000000001".into(), "16777217.0000000001".into()),
        ("lit-f32-midpoint-below", "1.00000005960464477".into(), "1.00000005960464477".into()),
        ("lit-f32-midpoint-neg", "-1.0000001788139343261718751".into(), "-1.0000001788139343261718751".into()),
        ("lit-many-digits", "0.1000000014901161193847656250000001".into(), "0.1000000014901161193847656250000001".into()),
        ("lit-subnormal", "1e-310".into(), "1e-310".into()),
        ("lit-overflowing", "1e400".into(), format!("{ty}::INFINITY")),
        ("lit-type-max", if ty == "f32" { "3.4028235e38".to_string() } else { "1.7976931348623157e308".to_string() }, format!("{ty}::MAX")),
        ("lit-type-max-decimal", if ty == "f32" { "340282350000000000000000000000000000000.0".to_string() } else { "1.7976931348623157e308".to_string() }, format!("{ty}::MAX")),
        ("lit-type-min", if ty == "f32" { "-3.4028235e38".to_string() } else { "-1.7976931348623157e308".to_string() }, format!("{ty}::MIN")),
        ("lit-min-positive", if ty == "f32" { "1.17549435e-38".to_string() } else { "2.2250738585072014e-308".to_string() }, format!("{ty}::MIN_POSITIVE")),
        ("lit-leading-arith", "5.0 + 3.0".into(), "5.0 + 3.0".into()),
        ("lit-leading-mul", "2.0 * KA".into(), "2.0 * KA".into()),
        ("const", "KA".into(), "KA".into()),
        ("neg-const", "-KA".into(), "-KA".into()),
        ("neg-const-spaced", "- KA".into(), "-KA".into()),
        ("neg-paren-const", "-(KA)".into(), "-(KA)".into()),
        ("paren-neg-const", "(-KA)".into(), "(-KA)".into()),
        ("neg-mod-const", "-k::KM".into(), "-k::KM".into()),
        ("mod-const", "k::KM".into(), "k::KM".into()),
        ("arith", "KA * 2.0 + 0.5".into(), "KA * 2.0 + 0.5".into()),
        ("neg-arith", "-KA * 2.0".into(), "-KA * 2.0".into()),
        ("type-epsilon", format!("{ty}::EPSILON"), format!("{ty}::EPSILON")),
        ("type-max", format!("{ty}::MAX"), format!("{ty}::MAX")),
        ("type-min", format!("{ty}::MIN"), format!("{ty}::MIN")),
        ("type-min-positive", format!("{ty}::MIN_POSITIVE"), format!("{ty}::MIN_POSITIVE")),
        ("type-inf", format!("{ty}::INFINITY"), format!("{ty}::INFINITY")),
        ("neg-type-inf", format!("-{ty}::INFINITY"), format!("-{ty}::INFINITY")),
        ("type-neg-inf", format!("{ty}::NEG_INFINITY"), format!("{ty}::NEG_INFINITY")),
        ("neg-type-max", format!("-{ty}::MAX"), format!("-{ty}::MAX")),
        ("block", "{ 5.0 }".into(), "{ 5.0 }".into()),
        ("if-expr", "if KA > 3.0 { 7.0 } else { 8.0 }".into(), "if KA > 3.0 { 7.0 } else { 8.0 }".into()),
        ("const-fn-call", "kmax()".into(), "kmax()".into()),
        ("neg-call", "-kmax()".into(), "-kmax()".into()),
        ("cast-int", format!("7i32 as {ty}"), format!("7i32 as {ty}")),
        ("cast-const", format!("(KA as i32 + 1) as {ty}"), format!("(KA as i32 + 1) as {ty}")),
    ];
    v.into_iter().map(|(a, b, c)| (a.to_string(), b, c)).collect()
}

fn bound(class: &str, m: &str, n: &str) -> Bound {
    Bound { macro_text: m.into(), neutral_text: n.into(), class: class.into(), intended: Num::I(0), literal: class.starts_with("lit") }
}

fn with_kind(kind: usize, b: Bound) -> ValSpec {
    match kind % 4 {
        0 => ValSpec::Greater(b),
        1 => ValSpec::Less(b),
        2 => ValSpec::GreaterEq(b),
        _ => ValSpec::LessEq(b),
    }
}

fn runner(seed: u64) -> TestRunner {
    let mut bytes = [0u8; 32];
    bytes[..8].copy_from_slice(&seed.to_le_bytes());
    bytes[8..16].copy_from_slice(b"c02decls");
    TestRunner::new_with_rng(Config { failure_persistence: None, ..Config::default() }, TestRng::from_seed(RngAlgorithm::ChaCha, &bytes))
}

pub fn decls(seed: u64, thorough: bool) -> Vec<Decl> {
    let mut out: Vec<Decl> = vec![];
    let light = [Tr::Debug, Tr::Clone, Tr::PartialEq];

    // A. spellings × validator kind × inner type (systematic)
    for (ti, t) in [IntTy::I32, IntTy::I64, IntTy::U8, IntTy::I8, IntTy::U64].into_iter().enumerate() {
        for (si, (class, m, n)) in int_spelling_texts(t).into_iter().enumerate() {
            let kinds: Vec<usize> = if thorough { vec![0, 1, 2, 3] } else { vec![si + ti, si + ti + 1] };
            for k in kinds {
                let mut d = Decl::new(Inner::Int(t));
                d.vals = Vals::Std(vec![with_kind(k, bound(&class, &m, &n))]);
                d.derives = light.to_vec();
                d.tags = vec![format!("c02:spelling:{class}"), format!("c02:kind:{}", d.std_vals()[0].kind())];
                out.push(d);
            }
        }
    }
    for (ti, inner) in [Inner::F64, Inner::F32].into_iter().enumerate() {
        for (si, (class, m, n)) in float_spelling_texts(inner.ty()).into_iter().enumerate() {
            let kinds: Vec<usize> = if thorough { vec![0, 1, 2, 3] } else { vec![si + ti, si + ti + 1] };
            for k in kinds {
                let mut d = Decl::new(inner);
                d.vals = Vals::Std(vec![with_kind(k, bound(&class, &m, &n))]);
                d.derives = light.to_vec();
                d.tags = vec![format!("c02:spelling:{class}"), format!("c02:kind:{}", d.std_vals()[0].kind())];
                out.push(d);
            }
        }
    }
    // string length bounds (usize)
    for (class, m, n) in int_spelling_texts(IntTy::Usize) {
        if class.contains("type-max") || class.contains("out-of-range") || class.contains("type-min") {
            continue;
        }
        for k in 0..2 {
            let mut d = Decl::new(Inner::Str);
            let b = bound(&class, &m, &n);
            d.vals = Vals::Std(vec![if k == 0 { ValSpec::LenCharMin(b) } else { ValSpec::LenCharMax(b) }]);
            d.derives = light.to_vec();
            d.tags = vec![format!("c02:spelling:{class}"), format!("c02:kind:{}", d.std_vals()[0].kind())];
            out.push(d);
        }
    }
    // two spelled bounds in one declaration (lower + upper)
    for t in [IntTy::I32, IntTy::I16] {
        let sp = int_spelling_texts(t);
        for (i, (c1, m1, n1)) in sp.iter().enumerate() {
            let (c2, m2, n2) = &sp[(i * 7 + 3) % sp.len()];
            let mut d = Decl::new(Inner::Int(t));
            d.vals = Vals::Std(vec![ValSpec::GreaterEq(bound(c1, m1, n1)), ValSpec::LessEq(bound(c2, &format!("({m2}) + 50"), &format!("({n2}) + 50")))]);
            d.derives = light.to_vec();
            d.tags = vec![format!("c02:spelling:{c1}"), format!("c02:spelling2:{c2}")];
            out.push(d);
        }
    }

    // B. layouts: block order permutations, trailing commas, empty lists, repeated blocks
    let blocks = [Block::Sanitize, Block::Validate, Block::Derive, Block::Default, Block::ConstFn, Block::NewUnchecked];
    let base_int = || {
        let mut d = Decl::new(Inner::Int(IntTy::I32));
        d.sans = vec![SanSpec::With(FnRef::new("s_clamp", FnForm::ConstPath))];
        d.vals = Vals::Std(vec![ValSpec::Greater(lit_i(-3)), ValSpec::LessEq(lit_i(40))]);
        d.derives = vec![Tr::Debug, Tr::Clone, Tr::PartialEq, Tr::Default];
        d.default = Some(DefaultSpec { macro_text: "7".into(), neutral_text: "7".into(), class: "valid".into() });
        d.const_fn = true;
        d.new_unchecked = true;
        d
    };
    let base_str = || {
        let mut d = Decl::new(Inner::Str);
        d.sans = vec![SanSpec::Trim, SanSpec::Lower];
        d.vals = Vals::Std(vec![ValSpec::LenCharMin(lit_u(2)), ValSpec::LenCharMax(lit_u(5)), ValSpec::NotEmpty]);
        d.derives = vec![Tr::Debug, Tr::Clone, Tr::PartialEq, Tr::Default];
        d.default = Some(DefaultSpec { macro_text: "\" Abc \"".into(), neutral_text: "\" Abc \"".into(), class: "valid".into() });
        d.new_unchecked = true;
        d
    };
    let perms = permutations(6);
    let step = if thorough { 7 } else { 37 };
    for (pi, p) in perms.iter().enumerate() {
        if pi % step != 0 {
            continue;
        }
        for (bi, mut d) in [base_int(), base_str()].into_iter().enumerate() {
            d.layout = Layout { order: p.iter().map(|i| blocks[*i]).collect(), trailing_comma_outer: (pi + bi) % 2 == 0, trailing_comma_inner: (pi / 2 + bi) % 2 == 0 };
            d.tags = vec![format!("c02:layout:order{}", if d.layout.trailing_comma_outer || d.layout.trailing_comma_inner { "+trailing-comma" } else { "" })];
            out.push(d);
        }
    }
    // empty lists
    for (name, raw) in [("empty-sanitize", "sanitize(), validate(greater = 1)"), ("empty-derive", "validate(greater = 1), derive()"), ("empty-validate", "validate()"), ("only-commas", "validate(greater = 1,,)"), ("leading-comma", ", validate(greater = 1)")] {
        let mut d = Decl::new(Inner::Int(IntTy::I32));
        d.vals = if name == "empty-validate" { Vals::None } else { Vals::Std(vec![ValSpec::Greater(lit_i(1))]) };
        d.raw_attr = Some(raw.to_string());
        d.tags = vec![format!("c02:layout:{name}")];
        out.push(d);
    }
    // repeated blocks: the model is the union of all written rules
    {
        let mut d = Decl::new(Inner::Int(IntTy::I32));
        d.pre_vals = vec![ValSpec::Less(lit_i(50))];
        d.vals = Vals::Std(vec![ValSpec::Greater(lit_i(10))]);
        d.tags = vec!["c02:layout:repeated-validate".into()];
        out.push(d);
        let mut d = Decl::new(Inner::F64);
        d.pre_vals = vec![ValSpec::Finite];
        d.vals = Vals::Std(vec![ValSpec::GreaterEq(lit_f(0.0))]);
        d.tags = vec!["c02:layout:repeated-validate".into()];
        out.push(d);
        let mut d = Decl::new(Inner::Str);
        d.pre_vals = vec![ValSpec::NotEmpty];
        d.vals = Vals::Std(vec![ValSpec::LenCharMax(lit_u(4))]);
        d.tags = vec!["c02:layout:repeated-validate".into()];
        out.push(d);
        let mut d = Decl::new(Inner::Str);
        d.pre_sans = vec![SanSpec::Trim];
        d.sans = vec![SanSpec::Lower];
        d.vals = Vals::Std(vec![ValSpec::LenCharMax(lit_u(4))]);
        d.tags = vec!["c02:layout:repeated-sanitize".into()];
        out.push(d);
        let mut d = Decl::new(Inner::Int(IntTy::I32));
        d.pre_sans = vec![SanSpec::With(FnRef::new("s_clamp", FnForm::Closure))];
        d.sans = vec![SanSpec::With(FnRef::new("s_wadd1", FnForm::Closure))];
        d.tags = vec!["c02:layout:repeated-sanitize".into()];
        out.push(d);
        // validate block, other blocks in between, second validate block
        let mut d = Decl::new(Inner::Int(IntTy::I64));
        d.pre_vals = vec![ValSpec::GreaterEq(lit_i(0))];
        d.vals = Vals::Std(vec![ValSpec::LessEq(lit_i(9))]);
        d.derives = vec![Tr::Debug];
        d.layout.order = vec![Block::Derive, Block::Validate, Block::Sanitize, Block::Default, Block::ConstFn, Block::NewUnchecked];
        d.tags = vec!["c02:layout:repeated-validate".into()];
        out.push(d);
    }

    // validator order within one block: every written rule must survive every position
    // (a rule is not "implied" by its neighbours: NaN passes literal bounds, so `finite` after them matters)
    for inner in [Inner::F32, Inner::F64] {
        let sets: Vec<Vec<ValSpec>> = vec![
            vec![ValSpec::GreaterEq(lit_f(0.0)), ValSpec::LessEq(lit_f(1024.0)), ValSpec::Finite],
            vec![ValSpec::Greater(lit_f(-1.5)), ValSpec::Less(lit_f(1.5)), ValSpec::Finite, ValSpec::Predicate(FnRef::new("p_not50", FnForm::Path))],
            vec![ValSpec::GreaterEq(spelled("const", "KA", "KA", Num::F(5.0), false)), ValSpec::LessEq(spelled("const", "KB", "KB", Num::F(100.0), false)), ValSpec::Finite],
            vec![ValSpec::GreaterEq(lit_f(0.0)), ValSpec::Finite],
            vec![ValSpec::Less(lit_f(10.0)), ValSpec::Finite],
        ];
        for set in sets {
            let perms = permutations(set.len());
            let stepk = if set.len() > 3 && !thorough { 3 } else { 1 };
            for (pi, p) in perms.iter().enumerate() {
                if pi % stepk != 0 {
                    continue;
                }
                let mut d = Decl::new(inner);
                d.vals = Vals::Std(p.iter().map(|i| set[*i].clone()).collect());
                d.derives = light.to_vec();
                d.tags = vec!["c02:layout:validator-order".into()];
                out.push(d);
            }
        }
    }
    for t in [IntTy::I32, IntTy::U8] {
        let set = vec![ValSpec::GreaterEq(lit_i(2)), ValSpec::LessEq(lit_i(60)), ValSpec::Predicate(FnRef::new("p_even", FnForm::Closure))];
        for p in permutations(3) {
            let mut d = Decl::new(Inner::Int(t));
            d.vals = Vals::Std(p.iter().map(|i| set[*i].clone()).collect());
            d.derives = light.to_vec();
            d.tags = vec!["c02:layout:validator-order".into()];
            out.push(d);
        }
    }
    {
        let set = vec![ValSpec::LenCharMin(lit_u(1)), ValSpec::LenCharMax(lit_u(4)), ValSpec::NotEmpty, ValSpec::Predicate(FnRef::new("p_ascii", FnForm::Path))];
        for (pi, p) in permutations(4).iter().enumerate() {
            if pi % 2 != 0 && !thorough {
                continue;
            }
            let mut d = Decl::new(Inner::Str);
            d.sans = if pi % 4 == 0 { vec![SanSpec::Trim] } else { vec![] };
            d.vals = Vals::Std(p.iter().map(|i| set[*i].clone()).collect());
            d.derives = light.to_vec();
            d.tags = vec!["c02:layout:validator-order".into()];
            out.push(d);
        }
    }

    // closures vs paths for `with` / `predicate`, regex literal vs static path: the same rule in every
    // syntactic form must be enforced identically (the model calls the library function directly)
    let all_forms = [FnForm::Path, FnForm::Closure, FnForm::ClosureTyped, FnForm::ClosureMut, FnForm::ClosureMove, FnForm::ClosureBlock];
    for (inner, san, pred) in [
        (Inner::Int(IntTy::I32), "s_clamp", "p_even"),
        (Inner::Int(IntTy::U8), "s_wadd1", "p_not7"),
        (Inner::F64, "s_neg", "p_not50"),
        (Inner::Str, "s_trunc5", "p_has_at"),
        (Inner::VecI32, "s_sort", "p_short"),
        (Inner::Point, "s_swap", "p_xpos"),
    ] {
        for (fi, form) in all_forms.iter().enumerate() {
            let mut d = Decl::new(inner);
            d.sans = vec![SanSpec::With(FnRef::new(san, *form))];
            d.vals = Vals::Std(vec![ValSpec::Predicate(FnRef::new(pred, all_forms[(fi + 2) % all_forms.len()]))]);
            d.derives = light.to_vec();
            d.tags = vec![format!("c02:form:{form:?}")];
            out.push(d);
        }
    }
    for form in [RegexForm::Literal, RegexForm::LazyLock, RegexForm::LazyStatic, RegexForm::OnceCell] {
        for (pi, pattern) in ["^[a-z]{2,4}$", "^\\s*@", "ß|İ"].iter().enumerate() {
            let mut d = Decl::new(Inner::Str);
            d.sans = if pi == 1 { vec![] } else { vec![SanSpec::Trim] };
            d.vals = Vals::Std(vec![ValSpec::Regex { pattern: pattern.to_string(), form: form.clone() }]);
            d.derives = light.to_vec();
            d.tags = vec![format!("c02:form:regex-{form:?}")];
            out.push(d);
        }
    }

    // standard validators mixed with a custom `with`/`error` pair, in every order: the union of the
    // written rules must be enforced (or the declaration rejected)
    for (inner, m, std_text, std_val, cust) in [
        (Inner::Int(IntTy::I32), "fi32", "greater_or_equal = 3", ValSpec::GreaterEq(lit_i(3)), "v_small"),
        (Inner::F64, "ff64", "greater_or_equal = 3.0", ValSpec::GreaterEq(lit_f(3.0)), "v_small"),
        (Inner::Str, "fstr", "len_char_min = 3", ValSpec::LenCharMin(lit_u(3)), "v_nobang"),
        (Inner::VecI32, "fvec", "predicate = fvec::p_nonempty", ValSpec::Predicate(FnRef::new("p_nonempty", FnForm::Path)), "v_sum"),
    ] {
        let w = format!("with = {m}::{cust}");
        let e = "error = CustomErr".to_string();
        for (oi, order) in [[0usize, 1, 2], [1, 2, 0], [1, 0, 2], [0, 2, 1], [2, 1, 0], [2, 0, 1]].iter().enumerate() {
            let parts = [std_text.to_string(), w.clone(), e.clone()];
            let attr = format!("validate({})", order.iter().map(|i| parts[*i].clone()).collect::<Vec<_>>().join(", "));
            let mut d = Decl::new(inner);
            d.raw_attr = Some(attr);
            // model: the standard rule AND the custom rule (as a predicate)
            d.vals = Vals::Std(vec![std_val.clone(), ValSpec::Predicate(FnRef::new(&format!("p_{cust}"), FnForm::Path))]);
            d.opaque_err = true;
            d.tags = vec![format!("c02:layout:standard-mixed-with-custom:order{oi}")];
            out.push(d);
        }
    }

    // sanitizer lists: every written sanitizer acts at its written position (none dropped, merged with a
    // neighbour or moved across a custom function); every order of {trim, case, with = f} for functions
    // that commute with neither, and every sub-list
    for (ci, case) in [SanSpec::Lower, SanSpec::Upper].into_iter().enumerate() {
        for (fi, fname) in ["s_appendx", "s_padsp", "s_prepz", "s_trunc5", "s_repl", "s_at2sp", "s_bang2z"].into_iter().enumerate() {
            let pool = [SanSpec::Trim, case.clone(), SanSpec::With(FnRef::new(fname, all_forms[(ci + fi) % all_forms.len()]))];
            for (pi, perm) in crate::catalogue::permutations(3).iter().enumerate() {
                for take in 2..=3 {
                    // two-element prefixes of the six orders are the six ordered pairs
                    let mut d = Decl::new(Inner::Str);
                    d.sans = perm.iter().take(take).map(|i| pool[*i].clone()).collect();
                    d.vals = match (pi + take + fi) % 3 {
                        0 => Vals::None,
                        1 => Vals::Std(vec![ValSpec::LenCharMax(bound("literal", "6", "6")), ValSpec::NotEmpty]),
                        _ => Vals::Std(vec![ValSpec::Predicate(FnRef::new("p_ascii", FnForm::Closure))]),
                    };
                    d.derives = light.to_vec();
                    if d.vals == Vals::None {
                        d.derives.retain(|t| *t != Tr::TryFrom);
                    }
                    d.tags = vec![format!("c02:sanitizer-order:{}", d.sans.iter().map(|s| match s { SanSpec::Trim => "trim", SanSpec::Lower => "lower", SanSpec::Upper => "upper", SanSpec::With(_) => "with" }).collect::<Vec<_>>().join("+"))];
                    out.push(d);
                }
            }
        }
    }

    // bounds that cannot denote a value of the bound type (overflowing arithmetic, a constant or suffixed
    // literal of another type, a negative or fractional length): such a declaration cannot be honoured and
    // has to be rejected - never accepted with a wrapped / truncated / coerced value. The model of these
    // units is a dummy: being accepted at all is the violation (decided by the driver).
    {
        use IntTy::*;
        let mut must_reject = |inner: Inner, kind: usize, text: &str, class: &str| {
            let mut d = Decl::new(inner);
            let b = bound(class, text, if inner.is_float() { "0.0" } else { "0" });
            d.vals = Vals::Std(vec![if inner == Inner::Str { if kind % 2 == 0 { ValSpec::LenCharMax(b) } else { ValSpec::LenCharMin(b) } } else { with_kind(kind, b) }]);
            d.derives = light.to_vec();
            d.tags = vec![format!("c02:must-reject:{class}")];
            out.push(d);
        };
        for (t, kind, text, class) in [
            (U8, 1, "200 + 100", "overflowing-arith"),
            (U8, 3, "WIDE", "const-of-wider-type"),
            (I8, 0, "WIDE", "const-of-wider-type"),
            (U16, 2, "-ONE", "neg-on-unsigned"),
            (I8, 1, "KB + KB", "overflowing-const-arith"),
            (U8, 1, "KB * 3", "overflowing-const-arith"),
            (U8, 0, "300", "literal-out-of-range"),
            (U16, 0, "-1", "literal-out-of-range"),
            (I16, 3, "1 << 20", "overflowing-shift"),
            (U32, 1, "u64::MAX", "const-of-wider-type"),
            (U8, 1, "256u16", "suffixed-literal-of-other-type"),
            (I32, 3, "5i64", "suffixed-literal-of-other-type"),
            (I64, 2, "WIDE as i128", "cast-to-other-type"),
            (U8, 1, "2.5", "float-for-integer"),
        ] {
            must_reject(Inner::Int(t), kind, text, class);
        }
        for (inner, kind, text, class) in [
            (Inner::F32, 1, "!1.5", "not-on-float"),
            (Inner::F64, 0, "!0.0", "not-on-float"),
            (Inner::F32, 1, "1e39", "literal-out-of-range"),
            (Inner::F32, 0, "WIDEF", "const-of-wider-type"),
            (Inner::F32, 3, "1.0f64", "suffixed-literal-of-other-type"),
            (Inner::F64, 1, "1e400", "literal-out-of-range"),
            (Inner::F64, 2, "1.0f32", "suffixed-literal-of-other-type"),
            (Inner::F64, 1, "WIDE", "integer-const-for-float"),
            (Inner::Str, 0, "-1", "negative-length"),
            (Inner::Str, 0, "WIDE", "const-of-other-type"),
            (Inner::Str, 1, "2.5", "fractional-length"),
            (Inner::Str, 0, "5u8", "suffixed-literal-of-other-type"),
        ] {
            must_reject(inner, kind, text, class);
        }
    }

    // C. seed-dependent random combinations: spelling × kind × type, two bounds, random layout
    let mut r = runner(seed);
    let n_random = if thorough { 400 } else { 80 };
    let int_tys = vec![IntTy::I8, IntTy::I16, IntTy::I32, IntTy::I64, IntTy::I128, IntTy::Isize, IntTy::U8, IntTy::U16, IntTy::U32, IntTy::U64, IntTy::U128, IntTy::Usize];
    let strat = (proptest::sample::select(int_tys), any::<proptest::sample::Index>(), any::<proptest::sample::Index>(), 0usize..4, 0usize..4, any::<bool>(), any::<bool>(), proptest::sample::select(perms.clone()), 0usize..3);
    for _ in 0..n_random {
        let (t, i1, i2, k1, k2, two, use_float, perm, fl) = strat.new_tree(&mut r).expect("strategy").current();
        let (inner, sp) = if use_float {
            let inner = if fl == 0 { Inner::F32 } else { Inner::F64 };
            (inner, float_spelling_texts(inner.ty()))
        } else {
            (Inner::Int(t), int_spelling_texts(t))
        };
        let (c1, m1, n1) = sp[i1.index(sp.len())].clone();
        let (c2, m2, n2) = sp[i2.index(sp.len())].clone();
        let mut d = Decl::new(inner);
        let mut vals = vec![with_kind(k1, bound(&c1, &m1, &n1))];
        if two {
            // a second bound of the opposite side
            let k2 = if k1 % 2 == 0 { 1 + 2 * (k2 % 2) } else { 2 * (k2 % 2) };
            vals.push(with_kind(k2, bound(&c2, &m2, &n2)));
        }
        d.vals = Vals::Std(vals);
        d.derives = light.to_vec();
        d.layout = Layout { order: perm.iter().map(|i| blocks[*i]).collect(), trailing_comma_outer: i1.index(2) == 0, trailing_comma_inner: i2.index(2) == 0 };
        d.tags = vec![format!("c02:spelling:{c1}"), "c02:random".into()];
        if two {
            d.tags.push(format!("c02:spelling2:{c2}"));
        }
        out.push(d);
    }
    for d in out.iter_mut() {
        d.opaque_err = true;
    }
    finalize(out, "s")
}
