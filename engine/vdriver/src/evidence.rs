//! Evidence files (`/verif/evidence/<id>.json`, schema /root/.vp/EVIDENCE.schema.json).

use serde_json::{json, Value};
use std::path::Path;

pub struct Evidence {
    pub property: String,
    pub tier: String,
    pub seed: u64,
    pub evaluations: u64,
    pub distinct_nontrivial: u64,
    pub rule: String,
    pub samples: Vec<Value>,
    pub exhaustive: bool,
    pub extra: Value,
    pub assumptions: Vec<String>,
    pub wall_s: f64,
    pub violations: u64,
}

pub fn write(verif: &Path, e: &Evidence) {
    let mut coverage = json!({
        "evaluations": e.evaluations,
        "distinct_nontrivial": e.distinct_nontrivial,
        "rule": e.rule,
        "samples": e.samples,
        "exhaustive": e.exhaustive,
    });
    if let (Some(c), Some(x)) = (coverage.as_object_mut(), e.extra.as_object()) {
        for (k, v) in x {
            c.insert(k.clone(), v.clone());
        }
    }
    let doc = json!({
        "property_id": e.property,
        "tier": e.tier,
        "seed": e.seed,
        "level": "exploration",
        "coverage": coverage,
        "assumptions": e.assumptions,
        "wall_s": e.wall_s,
        "violations": e.violations,
    });
    let dir = verif.join("evidence");
    std::fs::create_dir_all(&dir).ok();
    std::fs::write(dir.join(format!("{}.json", e.property)), serde_json::to_string_pretty(&doc).unwrap()).expect("evidence");
}
