//! Run-time properties: shared corpus crate + harness binary.

use crate::corpus::*;
use crate::evidence::{self, Evidence};
use crate::findings;
use crate::Env;
use serde_json::{json, Value};
use std::collections::{BTreeMap, BTreeSet};
use std::path::{Path, PathBuf};
use std::process::Command;

fn rt_dir(env: &Env) -> PathBuf {
    env.work.join("gen/rt")
}

pub fn setup(env: &Env) -> i32 {
    let decls = rt_decls(env, "quick");
    match build_rt(env, &rt_dir(env), "rtcorpus", &decls, false) {
        Ok(b) => {
            println!("setup: corpus of {} declarations built in {:.1}s ({} rounds, {} rejected)", decls.len(), b.build_s, b.rounds, b.rejected.len());
            for (k, v) in &b.rejected {
                println!("setup: rejected {k}: {v}");
            }
            // the sample corpus without debug assertions (used by every run-time check of the quick tier)
            let sample = crate::corpus::class_sample(&decls, 2);
            match build_rt(env, &env.work.join("gen/rtnda"), "ndacorpus", &sample, false) {
                Ok(sb) => println!("setup: sample corpus without debug assertions: {} declarations built in {:.1}s", sample.len(), sb.build_s),
                Err(e) => {
                    eprintln!("setup failed: {e}");
                    return 2;
                }
            }
            0
        }
        Err(e) => {
            eprintln!("setup failed: {e}");
            2
        }
    }
}

pub fn rule_for(prop: &str) -> &'static str {
    match prop {
        "C01" => "cases = (declaration, raw input): per declaration the seed-independent systematic inputs (all 2^8/2^16 values of 8/16-bit integers; bound±k, extremes and powers of two for wider integers; special-value grid and ulp neighbourhoods of every bound for floats; all strings over the hostile alphabet up to a length bound plus length-bound neighbourhoods) de-duplicated, plus proptest-generated random inputs; oracle = reference model validate(sanitize(raw)) compared with try_new/new (Ok/Err and bitwise value), twins compared with each other, const-evaluated results with run time. Non-trivial = distinct (declaration, input) where a sanitizer changes the input, or the model rejects it, or it lies within 2 steps of a declared bound.",
        "C02" => "cases = (declaration, raw input) where the declaration spells a bound in one of ~45 syntactic forms per numeric family (plain / negative / underscored / hex / suffixed literals, constants, negated constants `-K`, `- K`, `-(K)`, `-m::K`, parenthesised, arithmetic, shift, bit operations, casts, T::MIN/MAX/INFINITY, blocks, if/match expressions, const fn and method calls, literal-leading expressions) for every validator kind and several inner types incl. len_char_* on strings, or lays its attribute out in a permuted block order with trailing commas, empty lists or repeated sanitize/validate blocks; seed-dependent random combinations are generated with proptest. Each unit carries the macro-side text and a neutral `const` from which rustc computes the denoted value. Outcome 'rejected by rustc' is allowed and counted; for accepted units the oracle is C01's reference model over the union of all written rules. Non-trivial = distinct (declaration, input) with a non-literal spelling or non-canonical layout and the input within 2 steps of the denoted bound.",
        "C03" => "cases = (declaration deriving TryFrom/From/FromStr(String)/Default, raw input) over the C01 input domains, plus one Default case per declaration with a default; oracle = equality (value, error, panic) with try_new/new on the same input; Default must equal the constructor on the neutral evaluation of the default expression and panic when the constructor rejects it. Non-trivial = distinct case whose input is changed by sanitising or rejected by the reference model; every Default case.",
        "C04" => "cases = (declaration deriving Deserialize, format in {JSON, RON, MessagePack}, position in {top, Vec, Option, struct field, map value, map key}, document bytes): documents are serde encodings of seed values (valid / at and beyond each bound / changed by sanitising) at every integer and float width and as wrong types, wrapped and unwrapped as newtype struct, raw JSON/RON number spellings, plus proptest byte-level mutations; oracle = the same bytes decoded as a serde-derived reference newtype of the same name, then the constructor applied to every carried value (map keys: accepted keys must be fixed points of the constructor). Non-trivial = distinct document that decodes and whose value the constructor rejects or changes, or any nested position.",
        "C06" => "cases = (non-string declaration deriving FromStr, string): Display renderings of all systematic inner values with sign/padding/zero/exponent variants, a list of hostile numeric strings (overflowing digit runs, NaN/inf spellings, non-ASCII digits, type extremes ±1), proptest strings from numeric grammars and arbitrary Unicode; oracle = inner.parse() then the constructor, compared in variant and payload (Debug of the parse error, validation error index). Non-trivial = distinct string that parses as the inner type.",
        "C07" => "cases = (declaration with validators incl. all order permutations, raw input) over the C01 input domains; oracle = the reference model's index of the first violated validator in declaration order (custom validators: payload equality); the error enum is matched without wildcard in the generated glue. Non-trivial = distinct case violating at least two declared rules, or a custom-error case.",
        "C09" => "cases = (declaration deriving Arbitrary with non-empty valid set, byte string): ALL byte strings of length 0, 1 and 2, boundary patterns of every length up to 64, little-endian encodings of hostile code points in char slots, proptest random byte strings; oracle = no panic, and an Ok value satisfies the reference model's validators and is sanitized. Non-trivial = distinct input that is empty / all-00 / all-FF / longer than 2 bytes, or whose result lies within 2 steps of a bound, or that makes the generator panic.",
        "C10" => "cases = (declaration deriving Serialize+Deserialize with built-in or idempotent sanitizers, obtainable value, format): oracle = bytes equal serde's own derive for a newtype struct of the same name; for JSON and MessagePack byte-identical to the inner value's encoding; if the inner value round-trips, deserializing the output yields the same value. Non-trivial = distinct value with non-ASCII/escaped text, exponent or extreme number, -0.0, or within 2 steps of a bound.",
        "C11" => "cases = (declaration with built-in or idempotent sanitizers, start input, chain of up to 4 operations drawn from {try_new, TryFrom/From, Display->FromStr, Serialize->Deserialize in 3 formats}), interpreted against the live value with the invariant 'value unchanged' after every step (a step applies only if the inner type itself survives that medium); chains are generated as vec(op, 0..=4) and shrink as one value. Non-trivial = distinct case whose start input was changed by sanitising, or a chain of >= 2 steps mixing two media.",
        "C12" => "cases = for float declarations deriving Eq/Ord: (entry point, payload) attempts through try_new, TryFrom, FromStr, Deserialize (3 formats), Arbitrary and Default with every NaN payload class, ±inf, overflowing decimal strings, f64->f32 narrowing; and triples of accepted raw inputs (full cube of a spread of up to 28 values incl. ±0, subnormals, extremes, bound neighbours, plus random triples) checked for reflexivity, antisymmetry, transitivity, agreement of cmp with the inner partial_cmp and of partial_cmp with cmp, sort and BTreeSet round trip under catch_unwind. Non-trivial = distinct attempt with non-finite or hostile payload; distinct triple involving ±0, tiny or bound-adjacent values.",
        "C13" => "cases = (declaration deriving view/comparison traits, obtainable value) and (declaration, pair of obtainable values: full square of a spread of values incl. pairs that differ before sanitising and are equal after, plus random pairs); oracle = the same operation on the stored inner value(s): AsRef/Deref/Borrow/Into/Clone/Copy/iteration expose it, Display equals inner Display, Eq/Ord/PartialOrd equal the inner answers, Hash equals the hash of the borrowed form and HashMap lookup through Borrow finds the key. Non-trivial = distinct case where sanitising changed the value, a pair equal only after sanitising, or operands within 2 steps of a bound.",
        "C14" => "cases = (integer declaration deriving Arbitrary with identity sanitizers and a valid set of at most 2^16 values, byte string): ALL byte strings of length 0, 1 and 2 (everything int_in_range can consume for such a span); oracle = produced set ⊇ valid set computed from the reference model (the other inclusion is C09). Exhaustive per declaration. Non-trivial = inputs of declarations whose bound is an expression or touches the type's MIN/MAX.",
        "C16" => "cases = (declaration, bound validator, probe value at bound-2..bound+2 in units / ulps / chars): the Display text is parsed into (relation, bound) through a table of comparative phrases; oracle = the stated relation holds for exactly the probes the validator accepts, the text names the type and the declared bound, and serde / FromStr errors embed it. Exhaustive over the probe grid. Non-trivial = probes exactly at the bound.",
        _ => "",
    }
}

pub fn run(env: &Env, prop: &str, tier: &str) -> i32 {
    let t0 = std::time::Instant::now();
    let release = tier == "thorough";
    let (decls, dir, name) = if prop == "C02" {
        (vmodel::c02::decls(env.seed, tier == "thorough"), env.work.join("gen/c02"), "c02corpus")
    } else {
        (rt_decls(env, tier), rt_dir(env), "rtcorpus")
    };
    let built = match build_rt(env, &dir, name, &decls, release) {
        Ok(b) => b,
        Err(e) => {
            eprintln!("INCONCLUSIVE: {e}");
            return 2;
        }
    };
    let rep = match run_harness(env, &built.bins, prop, tier, &[]) {
        Ok(r) => r,
        Err(e) => {
            eprintln!("INCONCLUSIVE: {e}");
            return 2;
        }
    };
    let mut rep = rep;
    let mut fuzz_stats = json!(null);
    // thorough tier of the byte-level properties: coverage-guided campaign with a fixed run budget
    let sel = match prop {
        "C01" => Some(0u8),
        "C04" => Some(1),
        "C06" => Some(2),
        "C09" => Some(3),
        _ => None,
    };
    if let (true, Some(sel)) = (tier == "thorough" || std::env::var("VERIF_FUZZ").is_ok(), sel) {
        let runs: u64 = std::env::var("VERIF_FUZZ_RUNS").ok().and_then(|s| s.parse().ok()).unwrap_or(3_000_000);
        let fo = crate::fuzz::run(env, &decls, runs, Some(sel));
        if let Some(why) = fo.inconclusive {
            eprintln!("INCONCLUSIVE: {why}");
            return 2;
        }
        for v in &fo.violations {
            if v["prop"].as_str() != Some(prop) {
                continue;
            }
            rep.viols.push(vlib_report::Viol {
                prop: prop.to_string(),
                decl_id: v["decl_id"].as_str().unwrap_or("").to_string(),
                type_name: String::new(),
                decl: v["decl"].as_str().unwrap_or("").to_string(),
                signature: v["signature"].as_str().unwrap_or("").to_string(),
                case: v["case"].clone(),
                expected: v["expected"].as_str().unwrap_or("").to_string(),
                actual: v["actual"].as_str().unwrap_or("").to_string(),
                shrunk: "libFuzzer (unminimised crash input)".into(),
            });
        }
        rep.evaluations += fo.stats["number_of_executed_units"].as_u64().unwrap_or(0);
        fuzz_stats = fo.stats;
    }
    rep.notes.push(format!("libfuzzer: {fuzz_stats}"));
    let mut extra_decls: Vec<vmodel::Decl> = vec![];
    // the other setting of `debug-assertions` (quick: the corpus above has them on, thorough: off) on a
    // stratified sample of the corpus: code behind `debug_assert!` / `cfg!(debug_assertions)` is part of what
    // a user gets in one of the two kinds of build
    if prop != "C02" {
        let da_on = release;
        let sample = crate::corpus::class_sample(&decls, 2);
        let (sdir, sname) = if da_on { (env.work.join("gen/rtdbg"), "dbgcorpus") } else { (env.work.join("gen/rtnda"), "ndacorpus") };
        let sbuilt = match build_rt(env, &sdir, sname, &sample, false) {
            Ok(b) => b,
            Err(e) => {
                eprintln!("INCONCLUSIVE: {e}");
                return 2;
            }
        };
        let srep = match run_harness(env, &sbuilt.bins, prop, "quick", &[]) {
            Ok(r) => r,
            Err(e) => {
                eprintln!("INCONCLUSIVE: {e}");
                return 2;
            }
        };
        let marker = if da_on { " [in the build with debug-assertions = true]" } else { " [in the build with debug-assertions = false]" };
        rep.notes.push(format!(
            "second build with debug-assertions = {da_on}: {} sampled declarations, {} evaluations, {} violation record(s)",
            sample.len(),
            srep.evaluations,
            srep.viols.len()
        ));
        rep.evaluations += srep.evaluations;
        rep.nontrivial += srep.nontrivial;
        *rep.classes.entry(format!("evaluations-with-debug-assertions-{da_on}-sample")).or_insert(0) += srep.evaluations;
        for mut v in srep.viols {
            // already seen in the main build: not specific to this setting
            if rep.viols.iter().any(|x| x.signature == v.signature) {
                continue;
            }
            v.actual.push_str(marker);
            rep.viols.push(v);
        }
    }
    if prop == "C09" {
        // declarations whose acceptance is not asserted (Arbitrary next to what the macro says it cannot generate
        // for): whatever the tree under test accepts of them is held to the property
        let opt = vmodel::catalogue::c09_optional_decls();
        extra_decls.extend(opt.iter().cloned());
        match build_rt(env, &env.work.join("gen/rtopt"), "optcorpus", &opt, false) {
            Ok(ob) => {
                let accepted = opt.len() - ob.rejected.len();
                rep.notes.push(format!("optional declarations (Arbitrary with a `with` sanitizer + validation, predicate, regex, custom validation): {} generated, {accepted} accepted by this tree", opt.len()));
                *rep.classes.entry("optional-declaration-rejected-by-the-tree".into()).or_insert(0) += ob.rejected.len() as u64;
                if accepted > 0 {
                    match run_harness(env, &ob.bins, prop, "quick", &[]) {
                        Ok(orep) => {
                            rep.evaluations += orep.evaluations;
                            rep.nontrivial += orep.nontrivial;
                            rep.viols.extend(orep.viols);
                        }
                        Err(e) => {
                            eprintln!("INCONCLUSIVE: {e}");
                            return 2;
                        }
                    }
                }
            }
            Err(e) => {
                eprintln!("INCONCLUSIVE: {e}");
                return 2;
            }
        }
    }
    if prop == "C10" {
        // inner shapes the run-time corpus does not hold (maps, arrays, Option, tuples), with and without IntoIterator
        let units = vmodel::cf::c10_shape_units();
        let res = match crate::cf::verdicts(env, &env.work.join("gen/c10shape"), "c10s", &units, false, true) {
            Ok(r) => r,
            Err(e) => {
                eprintln!("INCONCLUSIVE: {e}");
                return 2;
            }
        };
        let (viols, _drift) = crate::cprops::judge_with_drift("C10", &units, &res);
        rep.evaluations += units.len() as u64;
        rep.nontrivial += units.len() as u64;
        *rep.classes.entry("inner-shape-unit".into()).or_insert(0) += units.len() as u64;
        for v in viols {
            rep.viols.push(vlib_report::Viol {
                prop: "C10".into(),
                decl_id: v.unit.id.clone(),
                type_name: "T".into(),
                decl: v.unit.decl.clone(),
                signature: v.signature.clone(),
                case: crate::cprops::case_json("C10", &v, false),
                expected: v.expected.clone(),
                actual: v.actual.clone(),
                shrunk: "none".into(),
            });
        }
    }
    if prop == "C13" {
        // no Borrow impl beyond the borrowed forms the run-time check compares against
        let units = vmodel::cf::c13_gate_units();
        let res = match crate::cf::verdicts(env, &env.work.join("gen/c13gate"), "c13g", &units, false, false) {
            Ok(r) => r,
            Err(e) => {
                eprintln!("INCONCLUSIVE: {e}");
                return 2;
            }
        };
        let (viols, _drift) = crate::cprops::judge_with_drift("C13", &units, &res);
        rep.evaluations += units.len() as u64;
        rep.nontrivial += units.len() as u64;
        *rep.classes.entry("borrowed-form-unit".into()).or_insert(0) += units.len() as u64;
        for v in viols {
            rep.viols.push(vlib_report::Viol {
                prop: "C13".into(),
                decl_id: v.unit.id.clone(),
                type_name: "T".into(),
                decl: v.unit.decl.clone(),
                signature: v.signature.clone(),
                case: crate::cprops::case_json("C13", &v, false),
                expected: v.expected.clone(),
                actual: v.actual.clone(),
                shrunk: "none".into(),
            });
        }
    }
    if prop == "C16" {
        // message and validator resolve the bound tokens in the same scope (declarations inside a fn body)
        let units = vmodel::cf::c16_scope_units();
        let res = match crate::cf::verdicts(env, &env.work.join("gen/c16scope"), "c16s", &units, false, true) {
            Ok(r) => r,
            Err(e) => {
                eprintln!("INCONCLUSIVE: {e}");
                return 2;
            }
        };
        let (viols, _drift) = crate::cprops::judge_with_drift("C16", &units, &res);
        rep.evaluations += units.len() as u64;
        rep.nontrivial += units.len() as u64;
        *rep.classes.entry("scope-unit".into()).or_insert(0) += units.len() as u64;
        for v in viols {
            rep.viols.push(vlib_report::Viol {
                prop: "C16".into(),
                decl_id: v.unit.id.clone(),
                type_name: "T".into(),
                decl: v.unit.decl.clone(),
                signature: v.signature.clone(),
                case: crate::cprops::case_json("C16", &v, false),
                expected: v.expected.clone(),
                actual: v.actual.clone(),
                shrunk: "none".into(),
            });
        }
    }
    if prop == "C11" {
        // the premise of "every obtainable value": no safe way to change a value in place
        let units = vmodel::cf::c11_gate_units();
        let res = match crate::cf::verdicts(env, &env.work.join("gen/c11gate"), "c11g", &units, false, false) {
            Ok(r) => r,
            Err(e) => {
                eprintln!("INCONCLUSIVE: {e}");
                return 2;
            }
        };
        let (viols, drift) = crate::cprops::judge_with_drift("C11", &units, &res);
        rep.evaluations += units.len() as u64;
        rep.nontrivial += units.len() as u64;
        *rep.classes.entry("in-place-mutation-attack-rejected".into()).or_insert(0) += units.iter().filter(|u| u.expect == vmodel::cf::Expect::Reject).count() as u64;
        *rep.classes.entry("in-place-mutation-control-accepted".into()).or_insert(0) += units.iter().filter(|u| u.expect == vmodel::cf::Expect::Accept).count() as u64;
        if !drift.is_empty() {
            rep.notes.push(format!("mutation attacks: rejections with an unexpected diagnostic: {drift:?}"));
        }
        for v in viols {
            rep.viols.push(vlib_report::Viol {
                prop: "C11".into(),
                decl_id: v.unit.id.clone(),
                type_name: "T".into(),
                decl: v.unit.decl.clone(),
                signature: v.signature.clone(),
                case: crate::cprops::case_json("C11", &v, false),
                expected: v.expected.clone(),
                actual: v.actual.clone(),
                shrunk: "none".into(),
            });
        }
    }
    if prop == "C12" {
        // the premise of the property: Eq/Ord on a float newtype is only permitted together with `finite`
        let units = vmodel::cf::c12_gate_units();
        let res = match crate::cf::verdicts(env, &env.work.join("gen/c12gate"), "c12g", &units, false, false) {
            Ok(r) => r,
            Err(e) => {
                eprintln!("INCONCLUSIVE: {e}");
                return 2;
            }
        };
        let (viols, drift) = crate::cprops::judge_with_drift("C12", &units, &res);
        rep.evaluations += units.len() as u64;
        rep.nontrivial += units.len() as u64;
        *rep.classes.entry("derive-gate-unit-rejected".into()).or_insert(0) += units.iter().filter(|u| u.expect == vmodel::cf::Expect::Reject).count() as u64;
        *rep.classes.entry("derive-gate-control-accepted".into()).or_insert(0) += units.iter().filter(|u| u.expect == vmodel::cf::Expect::Accept).count() as u64;
        if let Some(u) = units.iter().find(|u| u.class.contains("custom")) {
            rep.samples.push(json!({"class": "derive-gate", "decl": u.decl, "family": "float", "expected_verdict": "rejected by rustc", "case": {"unit": u.class}}));
        }
        if !drift.is_empty() {
            rep.notes.push(format!("derive gate: rejections with an unexpected diagnostic: {drift:?}"));
        }
        for v in viols {
            rep.viols.push(vlib_report::Viol {
                prop: "C12".into(),
                decl_id: v.unit.id.clone(),
                type_name: "T".into(),
                decl: v.unit.decl.clone(),
                signature: v.signature.clone(),
                case: crate::cprops::case_json("C12", &v, false),
                expected: v.expected.clone(),
                actual: v.actual.clone(),
                shrunk: "none".into(),
            });
        }
    }
    let mut decls = decls;
    decls.extend(extra_decls);
    finish(env, prop, tier, &decls, &built, rep, t0)
}

/// run all corpus binaries concurrently and merge their reports
pub fn run_harness(env: &Env, bins: &[PathBuf], prop: &str, tier: &str, extra: &[String]) -> Result<vlib_report::RunReport, String> {
    let threads = (16 / bins.len().max(1)).max(2);
    let mut children = vec![];
    for (k, b) in bins.iter().enumerate() {
        let out = env.work.join(format!("report-{prop}-{k}.json"));
        let _ = std::fs::remove_file(&out);
        let ch = Command::new(b)
            .args(["--prop", prop, "--tier", tier, "--seed", &env.seed.to_string(), "--threads", &threads.to_string(), "--out"])
            .arg(&out)
            .args(extra)
            .spawn()
            .map_err(|e| format!("cannot start {}: {e}", b.display()))?;
        children.push((ch, out));
    }
    let mut total = vlib_report::RunReport::default();
    for (mut ch, out) in children {
        let st = ch.wait().map_err(|e| e.to_string())?;
        if st.code() == Some(3) {
            return Err("harness watchdog fired (hang or far too slow): inconclusive".into());
        }
        let text = std::fs::read_to_string(&out).map_err(|_| format!("harness produced no report (status {st:?})"))?;
        let rep: vlib_report::RunReport = serde_json::from_str(&text).map_err(|e| format!("report json: {e}"))?;
        if let Some(a) = &rep.assumption_failure {
            return Err(format!("assumption failure: {a}"));
        }
        total.merge(rep);
    }
    Ok(total)
}

/// mirror of vlib::report::RunReport (vdriver does not link vlib)
pub mod vlib_report {
    use serde::Deserialize;
    use serde_json::Value;
    use std::collections::BTreeMap;
    #[derive(Deserialize, Debug, Clone)]
    pub struct Viol {
        pub prop: String,
        pub decl_id: String,
        pub type_name: String,
        pub decl: String,
        pub signature: String,
        pub case: Value,
        pub expected: String,
        pub actual: String,
        pub shrunk: String,
    }
    #[derive(Deserialize, Debug, Default)]
    pub struct RunReport {
        pub prop: String,
        pub tier: String,
        pub seed: u64,
        pub decls_total: u64,
        pub decls_relevant: u64,
        pub evaluations: u64,
        pub nontrivial: u64,
        pub exhaustive_decls: u64,
        pub classes: BTreeMap<String, u64>,
        pub samples: Vec<Value>,
        pub viols: Vec<Viol>,
        pub repeats: u64,
        pub notes: Vec<String>,
        pub assumption_failure: Option<String>,
        pub wall_s: f64,
    }
    impl RunReport {
        pub fn merge(&mut self, o: RunReport) {
            self.prop = o.prop;
            self.tier = o.tier;
            self.seed = o.seed;
            self.decls_total += o.decls_total;
            self.decls_relevant += o.decls_relevant;
            self.evaluations += o.evaluations;
            self.nontrivial += o.nontrivial;
            self.exhaustive_decls += o.exhaustive_decls;
            for (k, v) in o.classes {
                *self.classes.entry(k).or_insert(0) += v;
            }
            for s in o.samples {
                let class = s.get("class").and_then(|c| c.as_str()).unwrap_or("").to_string();
                let fam = s.get("family").and_then(|c| c.as_str()).unwrap_or("").to_string();
                let dup = self.samples.iter().any(|x| x.get("class").and_then(|c| c.as_str()) == Some(class.as_str()) && x.get("family").and_then(|c| c.as_str()) == Some(fam.as_str()));
                if !dup && self.samples.len() < 48 {
                    self.samples.push(s);
                }
            }
            self.viols.extend(o.viols);
            self.repeats += o.repeats;
            self.notes.extend(o.notes);
            self.wall_s = self.wall_s.max(o.wall_s);
        }
    }
}

fn short_hash(s: &str) -> String {
    // FNV-1a, stable across runs
    let mut h: u64 = 0xcbf29ce484222325;
    for b in s.bytes() {
        h ^= b as u64;
        h = h.wrapping_mul(0x100000001b3);
    }
    format!("{:012x}", h & 0xffff_ffff_ffff)
}

pub fn write_replay(env: &Env, decls: &[vmodel::Decl], v: &vlib_report::Viol, tier: &str) -> PathBuf {
    let dir = env.verif.join("replays").join(format!("{}-{}", v.prop, short_hash(&format!("{}|{}|{}", v.signature, v.decl, v.case))));
    std::fs::create_dir_all(&dir).ok();
    let d = decls.iter().find(|d| d.id == v.decl_id);
    let mut modules: Vec<Value> = vec![];
    if let Some(d) = d {
        if let Some(t) = &d.twin_of {
            if let Some(td) = decls.iter().find(|x| &x.id == t) {
                modules.push(json!({"id": td.id, "inner": td.inner.entry_variant(), "source": td.render_module()}));
            }
        }
        modules.push(json!({"id": d.id, "inner": d.inner.entry_variant(), "source": d.render_module()}));
    }
    let case = json!({
        "property": v.prop,
        "signature": v.signature,
        "decl_id": v.decl_id,
        "declaration": d.map(|d| d.decl_text()).unwrap_or_else(|| v.decl.clone()),
        "declaration_as_generated": v.decl,
        "case": v.case,
        "expected": v.expected,
        "actual": v.actual,
        "shrunk_by": v.shrunk,
        "seed": env.seed,
        "tier": tier,
        "debug_assertions": !v.actual.contains("[in the build with debug-assertions = false]"),
        "modules": modules,
    });
    std::fs::write(dir.join("case.json"), serde_json::to_string_pretty(&case).unwrap()).expect("replay");
    dir
}

fn finish(
    env: &Env,
    prop: &str,
    tier: &str,
    decls: &[vmodel::Decl],
    built: &Built,
    rep: vlib_report::RunReport,
    t0: std::time::Instant,
) -> i32 {
    // units of the run-time corpus that rustc rejected: every one of them is a well-formed declaration
    // of the documented grammar (the generators are sound by construction), so
    //  * C07: a rejection located in the wildcard-free error mapping means the generated error enum does
    //    not have exactly the declared variants;
    //  * C08 (accept side) is told about every other rejection when it runs (cprops::run_c08).
    let mut rep = rep;
    if prop == "C07" {
        for (id, why) in &built.rejected {
            // (E0599 also arises for other missing items; only a missing *variant* speaks about the enum)
            if why.starts_with("E0004") || (why.starts_with("E0599") && why.contains("variant")) || why.starts_with("E0026") || why.starts_with("E0027") {
                if let Some(d) = decls.iter().find(|d| &d.id == id) {
                    rep.viols.push(vlib_report::Viol {
                        prop: "C07".into(),
                        decl_id: id.clone(),
                        type_name: d.type_name.clone(),
                        decl: d.decl_text(),
                        signature: format!("C07|error-enum-variant-set-mismatch|{}", why.split_whitespace().next().unwrap_or("")),
                        case: json!({"compile_error": why}),
                        expected: "error enum with exactly one variant per declared validator (wildcard-free match compiles)".into(),
                        actual: why.clone(),
                        shrunk: "none".into(),
                    });
                }
            }
        }
    }
    if prop == "C02" {
        // units whose bound cannot denote a value of the bound type: being accepted is the violation
        let mut must = 0u64;
        for d in decls.iter() {
            let Some(class) = d.tags.iter().find_map(|t| t.strip_prefix("c02:must-reject:")) else { continue };
            must += 1;
            if !built.rejected.contains_key(&d.id) {
                rep.viols.push(vlib_report::Viol {
                    prop: "C02".into(),
                    decl_id: d.id.clone(),
                    type_name: d.type_name.clone(),
                    decl: d.decl_text(),
                    signature: format!("C02|accepted-declaration-it-cannot-honour|{class}|{}", d.inner.ty()),
                    case: json!({"accepted": true}),
                    expected: "rejected at compile time (the bound expression does not denote a value of the bound type)".into(),
                    actual: "accepted".into(),
                    shrunk: "none".into(),
                });
            }
        }
        rep.evaluations += must;
        rep.nontrivial += must;
        *rep.classes.entry("must-reject-unit".into()).or_insert(0) += must;
        // vacuity guard: rejection is an allowed outcome, but not for (almost) everything
        let accepted = decls.len() - built.rejected.len();
        if accepted * 2 < decls.len() {
            eprintln!("INCONCLUSIVE: only {accepted} of {} C02 units were accepted by rustc — the check would be vacuous", decls.len());
            return 2;
        }
    }
    let known = findings::load(&env.verif);
    let mut known_hit: BTreeMap<String, (String, u64)> = BTreeMap::new();
    let mut new_viols: Vec<&vlib_report::Viol> = vec![];
    for v in &rep.viols {
        match known.matching(prop, &v.signature) {
            Some(f) => {
                let e = known_hit.entry(f.signature.clone()).or_insert((f.what.clone(), 0));
                e.1 += 1;
            }
            None => new_viols.push(v),
        }
    }
    for (sig, (what, n)) in &known_hit {
        println!("KNOWN-FINDING: property={prop} {what} [signature {sig}; {n} declaration(s)]");
    }
    let mut seen_sig: BTreeSet<String> = BTreeSet::new();
    let mut printed = 0;
    for v in &new_viols {
        let first = seen_sig.insert(v.signature.clone());
        if first && printed < 8 {
            // declaration-level shrinking for the first few violations (VERIF_SHRINK=0 disables)
            let mut decls_for_replay: Vec<vmodel::Decl> = decls.to_vec();
            let mut shrunk_note = String::new();
            if printed < 3 && v.case["kind"].as_str() != Some("compile-verdict") && std::env::var("VERIF_SHRINK").map_or(true, |s| s != "0") {
                if let Some((small, steps)) = shrink_decl(env, decls, v) {
                    shrunk_note = format!("  shrunk declaration ({steps} removal step(s)): {}", small.decl_text().replace('\n', " "));
                    if let Some(slot) = decls_for_replay.iter_mut().find(|d| d.id == small.id) {
                        *slot = small;
                    }
                }
            }
            let decls = &decls_for_replay[..];
            let dir = if v.case["kind"].as_str() == Some("compile-verdict") {
                let dir = env.verif.join("replays").join(format!("{}-{}", v.prop, short_hash(&format!("{}|{}", v.signature, v.case["source"]))));
                std::fs::create_dir_all(&dir).ok();
                std::fs::write(dir.join("case.json"), serde_json::to_string_pretty(&v.case).unwrap()).expect("replay");
                dir
            } else {
                write_replay(env, decls, v, tier)
            };
            println!("VIOLATION property={prop} replay={}", dir.display());
            println!("  signature: {}", v.signature);
            println!("  declaration: {}", v.decl.replace('\n', " "));
            println!("  case: {}  expected: {}  actual: {}", v.case, v.expected, v.actual);
            if !shrunk_note.is_empty() {
                println!("{shrunk_note}");
            }
            printed += 1;
        }
    }
    let mut hist_family: BTreeMap<String, u64> = BTreeMap::new();
    let mut hist_tags: BTreeMap<String, u64> = BTreeMap::new();
    for d in decls {
        *hist_family.entry(d.inner.ty().to_string()).or_insert(0) += 1;
        for t in &d.tags {
            let key = t.split(':').next().unwrap_or(t).to_string();
            *hist_tags.entry(key).or_insert(0) += 1;
        }
    }
    let mut rejected_by_class: BTreeMap<String, u64> = BTreeMap::new();
    for id in built.rejected.keys() {
        if let Some(d) = decls.iter().find(|d| &d.id == id) {
            *rejected_by_class.entry(d.tags.first().cloned().unwrap_or_default()).or_insert(0) += 1;
        }
    }
    let mut generated_by_class: BTreeMap<String, u64> = BTreeMap::new();
    if prop == "C02" {
        for d in decls {
            *generated_by_class.entry(d.tags.first().cloned().unwrap_or_default()).or_insert(0) += 1;
        }
    }
    let ev = Evidence {
        property: prop.to_string(),
        tier: tier.to_string(),
        seed: env.seed,
        evaluations: rep.evaluations,
        distinct_nontrivial: rep.nontrivial,
        rule: rule_for(prop).to_string(),
        samples: rep.samples.clone(),
        // C14 enumerates, per declaration, every byte string the range can consume (a finite space, completely);
        // the quantifier over declarations itself is sampled
        exhaustive: prop == "C14",
        extra: json!({
            "declarations_generated": decls.len(),
            "declarations_in_harness": rep.decls_total,
            "declarations_relevant": rep.decls_relevant,
            "declarations_exhaustive_over_inner_type": rep.exhaustive_decls,
            "declarations_rejected_by_rustc": built.rejected,
            "declarations_rejected_by_class": rejected_by_class,
            "declarations_generated_by_class": generated_by_class,
            "case_classes": rep.classes,
            "declarations_by_inner_type": hist_family,
            "declarations_by_catalogue_section": hist_tags,
            "violations_known": known_hit.iter().map(|(k, v)| json!({"signature": k, "what": v.0, "declarations": v.1})).collect::<Vec<_>>(),
            "violations_new_signatures": seen_sig.iter().collect::<Vec<_>>(),
            "repeat_failures_same_signature": rep.repeats,
            "notes": rep.notes,
            "build_rounds": built.rounds,
            "build_s": built.build_s,
            "harness_s": rep.wall_s,
            "tools": {"rustc": rustc_version(), "proptest": "1.11.0"},
        }),
        assumptions: vec![
            "rustc/std (to_lowercase/to_uppercase, float parsing and comparison) are the trusted base of the reference model".into(),
            "float bounds reject only values ordered on the wrong side (NaN passes a bound, fails `finite`) — DESIGN §4".into(),
            "custom sanitizers/validators come from the fixed pure library vlib::fns".into(),
        ],
        wall_s: t0.elapsed().as_secs_f64(),
        violations: new_viols.len() as u64,
    };
    evidence::write(&env.verif, &ev);
    println!(
        "{prop} {tier}: {} declarations ({} relevant), {} evaluations, {} distinct non-trivial, {} known-finding signature(s), {} new violation signature(s), {:.1}s",
        rep.decls_total,
        rep.decls_relevant,
        rep.evaluations,
        rep.nontrivial,
        known_hit.len(),
        seen_sig.len(),
        t0.elapsed().as_secs_f64()
    );
    if new_viols.is_empty() {
        0
    } else {
        1
    }
}

fn rustc_version() -> String {
    Command::new("rustc").arg("--version").output().map(|o| String::from_utf8_lossy(&o.stdout).trim().to_string()).unwrap_or_default()
}

/// `./check replay <dir>`: rebuild the saved declaration against /repo and re-evaluate the saved case
pub fn replay(env: &Env, dir: &str) -> i32 {
    let p = Path::new(dir).join("case.json");
    let Ok(text) = std::fs::read_to_string(&p) else {
        eprintln!("cannot read {}", p.display());
        return 2;
    };
    let case: Value = serde_json::from_str(&text).expect("case.json");
    if case["kind"].as_str() == Some("compile-verdict") {
        return crate::cprops::replay(env, &case);
    }
    let prop = case["property"].as_str().unwrap_or("").to_string();
    let rdir = env.work.join("gen/replay");
    let _ = std::fs::remove_dir_all(rdir.join("src"));
    std::fs::create_dir_all(rdir.join("src")).ok();
    write_if_changed(&rdir.join("Cargo.toml"), &format!("{}\n{}", member_toml(env, "replaycorpus", RT_FEATURES), crate::corpus::workspace_toml_da(&[], case["debug_assertions"].as_bool().unwrap_or(true)).replace("members = []", "")));
    std::fs::create_dir_all(rdir.join(".cargo")).ok();
    write_if_changed(&rdir.join(".cargo/config.toml"), "[net]\noffline = true\n");
    if !rdir.join("Cargo.lock").exists() {
        let _ = std::fs::copy(env.verif.join("engine/corpus.lock"), rdir.join("Cargo.lock"));
    }
    let mut main = String::from("#![allow(unused)]\n");
    let mut reg = String::new();
    for m in case["modules"].as_array().cloned().unwrap_or_default() {
        let id = m["id"].as_str().unwrap();
        std::fs::write(rdir.join("src").join(format!("{id}.rs")), m["source"].as_str().unwrap()).unwrap();
        main.push_str(&format!("mod {id};\n"));
        reg.push_str(&format!("    vlib::types::Entry::{}(&{id}::VT),\n", m["inner"].as_str().unwrap()));
    }
    main.push_str(&format!("pub static REG: &[vlib::types::Entry] = &[\n{reg}];\nfn main() {{ vlib::run::main(REG) }}\n"));
    std::fs::write(rdir.join("src/main.rs"), main).unwrap();
    let (ok, per_file, other) = cargo_build(env, &rdir, false, false);
    // violations that consist in the compile verdict itself
    if case["case"]["accepted"].as_bool() == Some(true) {
        if ok {
            println!("VIOLATION property={prop} replay={dir}");
            println!("  signature: {}\n  the declaration is still accepted", case["signature"].as_str().unwrap_or(""));
            return 1;
        }
        println!("replay: the declaration is rejected now: {per_file:?}");
        return 0;
    }
    if case["case"].get("compile_error").is_some() {
        if ok {
            println!("replay: the declaration and its wildcard-free error mapping compile now");
            return 0;
        }
        if per_file.values().any(|w| w.starts_with("E0004") || (w.starts_with("E0599") && w.contains("variant")) || w.starts_with("E0026") || w.starts_with("E0027")) {
            println!("VIOLATION property={prop} replay={dir}");
            println!("  signature: {}\n  still: {per_file:?}", case["signature"].as_str().unwrap_or(""));
            return 1;
        }
    }
    if !ok {
        println!("replay: the saved declaration no longer compiles against /repo: {per_file:?} {other:?}");
        return 2;
    }
    let out = env.work.join("report-replay.json");
    let _ = std::fs::remove_file(&out);
    let _ = Command::new(target_dir(env).join("debug/replaycorpus"))
        .args(["--prop", &prop, "--tier", "quick", "--seed", "1", "--only", case["decl_id"].as_str().unwrap(), "--case", &case["case"].to_string(), "--out"])
        .arg(&out)
        .status();
    let Ok(text) = std::fs::read_to_string(&out) else { return 2 };
    let rep: vlib_report::RunReport = serde_json::from_str(&text).expect("report");
    if rep.viols.is_empty() {
        println!("replay: case no longer fails ({} evaluation(s))", rep.evaluations);
        0
    } else {
        for v in &rep.viols {
            println!("VIOLATION property={prop} replay={dir}");
            println!("  signature: {}\n  case: {}\n  expected: {}\n  actual: {}", v.signature, v.case, v.expected, v.actual);
        }
        1
    }
}


// ------------------------------------------------------------------------------------------------
// Declaration-level shrinking (DESIGN §7): greedy removal of derives / sanitizers / validators /
// flags, each round building all single-removal candidates in one crate and re-evaluating the saved
// case on each; the smallest declaration that still fails in the same way replaces the original in
// the replay file.

fn failure_class(sig: &str) -> String {
    // property | inner type | entry | kind — without the sans=/vals= detail, which changes while shrinking
    sig.split('|').filter(|p| !p.starts_with("sans=") && !p.starts_with("vals=") && !p.starts_with("rule=") && !p.starts_with("by=")).take(4).collect::<Vec<_>>().join("|")
}

fn removal_candidates(d: &vmodel::Decl) -> Vec<(String, vmodel::Decl)> {
    use vmodel::{Tr, Vals};
    let mut out = vec![];
    let prereq_ok = |ds: &Vec<Tr>| {
        let has = |t: Tr| ds.contains(&t);
        (!has(Tr::Eq) || has(Tr::PartialEq)) && (!has(Tr::PartialOrd) || has(Tr::PartialEq)) && (!has(Tr::Ord) || (has(Tr::PartialOrd) && has(Tr::Eq))) && (!has(Tr::Copy) || has(Tr::Clone))
    };
    // all derives at once, then one at a time
    if d.derives.len() > 1 {
        let mut x = d.clone();
        x.derives.clear();
        out.push(("no-derives".into(), x));
    }
    // keep a single trait (with its prerequisites): usually the entry point the property is about
    if d.derives.len() > 3 {
        for t in &d.derives {
            let mut keep = vec![*t];
            match t {
                Tr::Eq | Tr::PartialOrd => keep.push(Tr::PartialEq),
                Tr::Ord => keep.extend([Tr::PartialEq, Tr::Eq, Tr::PartialOrd]),
                Tr::Copy => keep.push(Tr::Clone),
                Tr::Serialize => keep.push(Tr::Deserialize),
                Tr::Hash => keep.extend([Tr::PartialEq, Tr::Eq, Tr::Borrow]),
                _ => {}
            }
            let mut x = d.clone();
            x.derives.retain(|y| keep.contains(y));
            if x.derives.len() < d.derives.len() && prereq_ok(&x.derives) {
                out.push((format!("only-{}", t.name()), x));
            }
        }
    }
    for t in &d.derives {
        let mut x = d.clone();
        x.derives.retain(|y| y != t);
        if *t == Tr::Default {
            // keep `default =` (legal without the derive)
        }
        if prereq_ok(&x.derives) {
            out.push((format!("-{}", t.name()), x));
        }
    }
    for i in 0..d.sans.len() {
        let mut x = d.clone();
        x.sans.remove(i);
        out.push((format!("-sanitizer{i}"), x));
    }
    if let Vals::Std(vs) = &d.vals {
        for i in 0..vs.len() {
            let mut x = d.clone();
            let mut v = vs.clone();
            v.remove(i);
            if v.is_empty() {
                x.vals = Vals::None;
                // From/TryFrom admissibility flips with validation: drop both to stay well-formed
                x.derives.retain(|t| !matches!(t, Tr::TryFrom | Tr::From));
            } else {
                x.vals = Vals::Std(v);
            }
            out.push((format!("-validator{i}"), x));
        }
    }
    if d.default.is_some() && !d.derives.contains(&Tr::Default) {
        let mut x = d.clone();
        x.default = None;
        out.push(("-default".into(), x));
    }
    if d.new_unchecked {
        let mut x = d.clone();
        x.new_unchecked = false;
        out.push(("-new_unchecked".into(), x));
    }
    if d.layout != vmodel::Layout::default() {
        let mut x = d.clone();
        x.layout = vmodel::Layout::default();
        out.push(("canonical-layout".into(), x));
    }
    out
}

pub fn shrink_decl(env: &Env, decls: &[vmodel::Decl], v: &vlib_report::Viol) -> Option<(vmodel::Decl, usize)> {
    let orig = decls.iter().find(|d| d.id == v.decl_id)?.clone();
    if orig.twin_of.is_some() || v.signature.contains("twin-mismatch") || v.signature.contains("const-eval") {
        return None;
    }
    let class = failure_class(&v.signature);
    let dir = env.work.join("gen/shrink");
    let mut cur = orig.clone();
    let mut steps = 0;
    for _round in 0..12 {
        let mut cands = removal_candidates(&cur);
        if cands.is_empty() {
            break;
        }
        for (i, (_, c)) in cands.iter_mut().enumerate() {
            c.id = format!("k{:03}", i + 1);
            c.twin_of = None;
            c.const_evals.clear();
        }
        let cdecls: Vec<vmodel::Decl> = cands.iter().map(|(_, c)| c.clone()).collect();
        let Ok(built) = build_rt(env, &dir, "shrinkcorpus", &cdecls, false) else { break };
        // evaluate the saved case on every surviving candidate
        let mut next: Option<vmodel::Decl> = None;
        for (_name, c) in &cands {
            if built.rejected.contains_key(&c.id) {
                continue;
            }
            let extra = vec!["--only".to_string(), c.id.clone(), "--case".to_string(), v.case.to_string()];
            let Ok(rep) = run_harness(env, &built.bins, &v.prop, "quick", &extra) else { continue };
            if rep.viols.iter().any(|x| failure_class(&x.signature) == class) {
                next = Some(c.clone());
                break;
            }
        }
        match next {
            Some(mut n) => {
                n.id = orig.id.clone();
                cur = n;
                steps += 1;
            }
            None => break,
        }
    }
    if steps == 0 {
        None
    } else {
        Some((cur, steps))
    }
}
