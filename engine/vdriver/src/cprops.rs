//! Compile-verdict properties: C05 (bypass attempts), C08 (accept/reject predicate,
//! generated tests), C15 (no_std).

use crate::cf::{self, CfResult, Verdict};
use crate::evidence::{self, Evidence};
use crate::findings;
use crate::Env;
use serde_json::{json, Value};
use std::collections::{BTreeMap, BTreeSet};
use vmodel::cf::{Expect, Unit};

pub struct CViol {
    pub signature: String,
    pub unit: Unit,
    pub expected: String,
    pub actual: String,
}

fn short_hash(s: &str) -> String {
    let mut h: u64 = 0xcbf29ce484222325;
    for b in s.bytes() {
        h ^= b as u64;
        h = h.wrapping_mul(0x100000001b3);
    }
    format!("{:012x}", h & 0xffff_ffff_ffff)
}

fn write_replay(env: &Env, prop: &str, v: &CViol, no_std: bool) -> std::path::PathBuf {
    let dir = env.verif.join("replays").join(format!("{prop}-{}", short_hash(&format!("{}|{}", v.signature, v.unit.source))));
    std::fs::create_dir_all(&dir).ok();
    let case = case_json(prop, v, no_std);
    std::fs::write(dir.join("case.json"), serde_json::to_string_pretty(&case).unwrap()).expect("replay");
    dir
}

/// the self-contained replay record of a compile-verdict violation
pub fn case_json(prop: &str, v: &CViol, no_std: bool) -> Value {
    json!({
        "property": prop,
        "kind": "compile-verdict",
        "signature": v.signature,
        "class": v.unit.class,
        "declaration": v.unit.decl,
        "features": v.unit.features,
        "no_std": no_std,
        "expect": format!("{:?}", v.unit.expect),
        "expect_errors": v.unit.expect_errors,
        "tests_must_fail": v.unit.tests_must_fail,
        "tests_must_pass": v.unit.tests_must_pass,
        "expected": v.expected,
        "actual": v.actual,
        "source": v.unit.source,
    })
}

/// judge the verdicts of `units` against their expectations
pub fn judge(prop: &str, units: &[Unit], res: &CfResult) -> Vec<CViol> {
    judge_with_drift(prop, units, res).0
}

/// violations, and rejections whose diagnostic differs from the expected one (drift, informational)
pub fn judge_with_drift(prop: &str, units: &[Unit], res: &CfResult) -> (Vec<CViol>, Vec<String>) {
    let mut drift: Vec<String> = vec![];
    let mut out = vec![];
    for u in units {
        let v: &Verdict = &res.verdicts[&u.id];
        let errs = || v.errors.iter().map(|(c, m)| format!("{c} {m}")).collect::<Vec<_>>().join(" | ");
        // class without the per-family / per-base suffix detail is kept in full: signatures name the class
        match (u.expect, v.accepted) {
            (Expect::Accept, false) => {
                let code = v.errors.first().map(|(c, m)| if c.is_empty() { m.chars().take(60).collect::<String>() } else { c.clone() }).unwrap_or_default();
                out.push(CViol { signature: format!("{prop}|{}|expected=accept|got=reject|{code}", u.class), unit: u.clone(), expected: "accepted by rustc".into(), actual: format!("rejected: {}", errs()) });
            }
            (Expect::Reject, true) => {
                out.push(CViol { signature: format!("{prop}|{}|expected=reject|got=accept", u.class), unit: u.clone(), expected: format!("rejected ({})", u.expect_errors.join(" or ")), actual: "accepted by rustc".into() });
            }
            (Expect::Reject, false) => {
                if !u.expect_errors.is_empty() {
                    let hit = v.errors.iter().any(|(c, m)| u.expect_errors.iter().any(|e| c == e || m.contains(e.as_str())));
                    if !hit {
                        // The unit IS rejected, so the property holds for it; a different diagnostic than the
                        // one seen on the tree as received is only *drift* (reworded message, other rustc
                        // code) and is reported in the evidence, never as a violation.
                        drift.push(format!("{}: expected one of [{}], got: {}", u.class, u.expect_errors.join(", "), errs()));
                    }
                }
            }
            _ => {}
        }
        if v.accepted {
            for t in &u.tests_must_fail {
                let name = res.tests.iter().find(|(k, _)| k.starts_with(&format!("{}::", u.id)) && k.ends_with(t.as_str()));
                match name {
                    Some((_, false)) => {}
                    Some((_, true)) => out.push(CViol { signature: format!("{prop}|{}|generated-test-passes:{t}", u.class), unit: u.clone(), expected: format!("generated test {t} fails"), actual: "test passed".into() }),
                    None => out.push(CViol { signature: format!("{prop}|{}|generated-test-missing:{t}", u.class), unit: u.clone(), expected: format!("generated test {t} exists and fails"), actual: "no such test ran".into() }),
                }
            }
            for t in &u.tests_must_pass {
                let name = res.tests.iter().find(|(k, _)| k.starts_with(&format!("{}::", u.id)) && k.ends_with(t.as_str()));
                if let Some((_, false)) = name {
                    out.push(CViol { signature: format!("{prop}|{}|generated-test-fails-on-consistent-declaration:{t}", u.class), unit: u.clone(), expected: format!("generated test {t} passes"), actual: "test failed".into() });
                }
            }
        }
    }
    (out, drift)
}

pub fn report(
    env: &Env,
    prop: &str,
    tier: &str,
    units: &[Unit],
    res: &CfResult,
    viols: Vec<CViol>,
    rule: &str,
    no_std: bool,
    extra: Value,
    t0: std::time::Instant,
) -> i32 {
    let known = findings::load(&env.verif);
    let mut known_hit: BTreeMap<String, (String, u64)> = BTreeMap::new();
    let mut new_viols: Vec<&CViol> = vec![];
    for v in &viols {
        match known.matching(prop, &v.signature) {
            Some(f) => {
                let e = known_hit.entry(f.signature.clone()).or_insert((f.what.clone(), 0));
                e.1 += 1;
            }
            None => new_viols.push(v),
        }
    }
    for (sig, (what, n)) in &known_hit {
        println!("KNOWN-FINDING: property={prop} {what} [signature {sig}; {n} unit(s)]");
    }
    let mut seen: BTreeSet<String> = BTreeSet::new();
    for v in &new_viols {
        if seen.insert(v.signature.clone()) && seen.len() <= 10 {
            let dir = write_replay(env, prop, v, no_std);
            println!("VIOLATION property={prop} replay={}", dir.display());
            println!("  signature: {}", v.signature);
            println!("  declaration: {}", v.unit.decl.replace('\n', " "));
            println!("  expected: {}  actual: {}", v.expected, v.actual);
        }
    }
    let mut classes: BTreeMap<String, u64> = BTreeMap::new();
    let mut distinct: BTreeSet<String> = BTreeSet::new();
    let mut nontrivial = 0u64;
    let mut samples: Vec<Value> = vec![];
    let mut sample_classes: BTreeSet<String> = BTreeSet::new();
    let (mut acc, mut rej) = (0u64, 0u64);
    for u in units {
        let top = u.class.split(':').next().unwrap_or("").to_string();
        *classes.entry(top.clone()).or_insert(0) += 1;
        let v = &res.verdicts[&u.id];
        if v.accepted {
            acc += 1
        } else {
            rej += 1
        }
        if distinct.insert(short_hash(&u.source)) && u.nontrivial {
            nontrivial += 1;
        }
        if sample_classes.insert(top) && samples.len() < 24 {
            samples.push(json!({
                "class": u.class,
                "declaration": u.decl,
                "features": u.features,
                "expected": format!("{:?}", u.expect),
                "rustc_verdict": if v.accepted { "accepted".to_string() } else { format!("rejected: {}", v.errors.iter().map(|(c, m)| format!("{c} {m}")).next().unwrap_or_default()) },
                "unit_tail": u.source.lines().rev().take(2).collect::<Vec<_>>().into_iter().rev().collect::<Vec<_>>().join("\n"),
            }));
        }
    }
    let mut extra_full = json!({
        "units_total": units.len(),
        "units_accepted_by_rustc": acc,
        "units_rejected_by_rustc": rej,
        "units_by_class": classes,
        "generated_tests_observed": res.tests.len(),
        "check_rounds": res.rounds,
        "crates": res.crates.iter().map(|(n, _)| n.clone()).collect::<Vec<_>>(),
        "rejected_units_sample": units.iter().filter(|u| !res.verdicts[&u.id].accepted).take(40).map(|u| json!({"class": u.class, "decl": u.decl.lines().next().unwrap_or(""), "error": res.verdicts[&u.id].errors.first().map(|(c, m)| format!("{c} {m}")).unwrap_or_default()})).collect::<Vec<_>>(),
        "violations_known": known_hit.iter().map(|(k, v)| json!({"signature": k, "what": v.0, "units": v.1})).collect::<Vec<_>>(),
        "violations_new_signatures": seen.iter().collect::<Vec<_>>(),
        "build_s": res.build_s,
    });
    if let (Some(a), Some(b)) = (extra_full.as_object_mut(), extra.as_object()) {
        for (k, v) in b {
            a.insert(k.clone(), v.clone());
        }
    }
    evidence::write(
        &env.verif,
        &Evidence {
            property: prop.into(),
            tier: tier.into(),
            seed: env.seed,
            evaluations: units.len() as u64 + res.tests.len() as u64,
            distinct_nontrivial: nontrivial,
            rule: rule.into(),
            samples,
            exhaustive: false,
            extra: extra_full,
            assumptions: vec![
                "rustc is the judge of acceptance; a unit is rejected iff rustc reports an error whose primary span (followed through macro expansion) lies in its file".into(),
                "units are mutually independent modules; iterating check rounds removes masking of borrow-check errors by type errors".into(),
            ],
            wall_s: t0.elapsed().as_secs_f64(),
            violations: new_viols.len() as u64,
        },
    );
    println!(
        "{prop} {tier}: {} units ({acc} accepted, {rej} rejected by rustc), {} generated tests observed, {} distinct non-trivial, {} known-finding signature(s), {} new violation signature(s), {:.1}s",
        units.len(),
        res.tests.len(),
        nontrivial,
        known_hit.len(),
        seen.len(),
        t0.elapsed().as_secs_f64()
    );
    if new_viols.is_empty() {
        0
    } else {
        1
    }
}

pub fn run_c08(env: &Env, tier: &str) -> i32 {
    let t0 = std::time::Instant::now();
    let units = vmodel::cf::c08_units(env.seed, tier == "thorough");
    let res = match cf::verdicts(env, &env.work.join("gen/c08"), "c08", &units, false, true) {
        Ok(r) => r,
        Err(e) => {
            eprintln!("INCONCLUSIVE: {e}");
            return 2;
        }
    };
    let (mut viols, drift) = judge_with_drift("C08", &units, &res);
    // accept side over the whole run-time corpus: every catalogue / random declaration is a well-formed
    // declaration of the documented grammar and must be accepted (with its derive set and glue)
    let rt_decls = crate::corpus::rt_decls(env, tier);
    let mut rt_rejected = 0u64;
    match crate::corpus::build_rt(env, &env.work.join("gen/rt"), "rtcorpus", &rt_decls, tier == "thorough") {
        Ok(built) => {
            for (id, why) in &built.rejected {
                rt_rejected += 1;
                if let Some(d) = rt_decls.iter().find(|d| &d.id == id) {
                    let class = d.tags.first().cloned().unwrap_or_default();
                    viols.push(CViol {
                        signature: format!("C08|runtime-corpus:{}|expected=accept|got=reject|{}", class.split(':').next().unwrap_or(""), why.split_whitespace().next().unwrap_or("")),
                        unit: Unit {
                            id: id.clone(),
                            class: format!("runtime-corpus:{class}"),
                            features: vec!["serde".into(), "regex".into(), "arbitrary".into(), "new_unchecked".into()],
                            source: vmodel::cf::unit_source(d, false, ""),
                            expect: Expect::Accept,
                            expect_errors: vec![],
                            tests_must_fail: vec![],
                            tests_must_pass: vec![],
                            decl: d.decl_text(),
                            nontrivial: true,
                        },
                        expected: "accepted by rustc".into(),
                        actual: format!("rejected: {why}"),
                    });
                }
            }
        }
        Err(e) => {
            eprintln!("INCONCLUSIVE: {e}");
            return 2;
        }
    }
    let n_rt = rt_decls.len();
    let rule = "cases = declarations generated from the documented attribute grammar (inner-type family x sanitizers x validators with literal and expression bounds in every relative position x derive sets x flags x crate-feature set x hostile type / type-parameter names), each with at most one injected fault, paired with the verdict of an independent accept/reject predicate written from the README and the property statement; the judge is rustc (cargo check rounds with per-file attribution); for expression-valued contradictions and invalid defaults the generated #[test]s are run and must fail (and pass for consistent declarations). Non-trivial = distinct unit carrying an injected fault, a hostile name, or using at least 3 grammar features.";
    report(env, "C08", tier, &units, &res, viols, rule, false, json!({"runtime_corpus_declarations_required_to_compile": n_rt, "runtime_corpus_declarations_rejected": rt_rejected, "rejections_with_unexpected_diagnostic": drift}), t0)
}

pub fn run_c05(env: &Env, tier: &str) -> i32 {
    let t0 = std::time::Instant::now();
    let units = vmodel::cf::c05_units(env.seed, tier == "thorough");
    let res = match cf::verdicts(env, &env.work.join("gen/c05"), "c05", &units, false, false) {
        Ok(r) => r,
        Err(e) => {
            eprintln!("INCONCLUSIVE: {e}");
            return 2;
        }
    };
    let (mut viols, drift) = judge_with_drift("C05", &units, &res);
    // structural invariant over every function of every expansion
    let (structural, sviols) = match crate::expand::structural_scan(env, &res, &units) {
        Ok(x) => x,
        Err(e) => {
            eprintln!("INCONCLUSIVE: expansion scan failed: {e}");
            return 2;
        }
    };
    viols.extend(sviols);
    let rule = "cases = (declaration, bypass attempt) pairs from a catalogue of attacks (tuple / struct-literal construction incl. through the hidden module, field read/write, destructuring, assignment through Deref, DerefMut/AsMut/BorrowMut, mutable iteration, push/get_mut through Deref, private __sanitize__/__validate__, new_unchecked without flag / feature / unsafe, Default without default, naming a private type or its error types from outside), each paired with a control program using the legitimate API in the same shape; oracle = rustc rejects the attack with an expected error code and accepts the control. Plus a structural scan of every macro expansion (-Zunpretty=expanded parsed with syn): tuple-struct construction only inside new/try_new/unsafe fn/Clone; no &mut access to field 0; no DerefMut/AsMut/BorrowMut/IndexMut impl; new_unchecked only with flag and always unsafe. Non-trivial = distinct pair whose declaration derives the view trait the attack abuses, feature/flag and visibility cases.";
    let mut structural = structural;
    structural["rejections_with_unexpected_diagnostic"] = json!(drift);
    report(env, "C05", tier, &units, &res, viols, rule, false, structural, t0)
}

pub fn run_c15(env: &Env, tier: &str) -> i32 {
    let t0 = std::time::Instant::now();
    let units = vmodel::cf::c15_units(env.seed, tier == "thorough");
    // metamorphic: the same units must also be accepted in std mode (verdict equality)
    let std_res = match cf::verdicts(env, &env.work.join("gen/c15std"), "c15std", &units, false, true) {
        Ok(r) => r,
        Err(e) => {
            eprintln!("INCONCLUSIVE: {e}");
            return 2;
        }
    };
    let res = match cf::verdicts(env, &env.work.join("gen/c15"), "c15", &units, true, true) {
        Ok(r) => r,
        Err(e) => {
            eprintln!("INCONCLUSIVE: {e}");
            return 2;
        }
    };
    // the same no_std crates once more, with a host-side (build-dependency) user of nutype that has the
    // default `std` feature on: the single host build of nutype_macros then carries `std` while the
    // client's nutype does not
    let host_res = match cf::verdicts(env, &env.work.join("gen/c15host"), "c15host", &units, true, false) {
        Ok(r) => r,
        Err(e) => {
            eprintln!("INCONCLUSIVE: {e}");
            return 2;
        }
    };
    let mut viols = vec![];
    let mut std_rejected = 0;
    for u in &units {
        let s = &std_res.verdicts[&u.id];
        let n = &res.verdicts[&u.id];
        if !s.accepted {
            std_rejected += 1;
            continue; // not an accepted declaration: outside the property (C08's subject)
        }
        let h = &host_res.verdicts[&u.id];
        if n.accepted && !h.accepted {
            let (code, msg) = h.errors.first().cloned().unwrap_or_default();
            viols.push(CViol {
                signature: format!("C15|{}|accepted-in-no_std|rejected-when-host-side-nutype-has-std|{}", u.class, code),
                unit: u.clone(),
                expected: "compiles in a #![no_std] crate whatever features another (host-side) user of nutype enables".into(),
                actual: format!("rejected: {code} {msg}"),
            });
        }
        if !n.accepted {
            let (code, msg) = n.errors.first().cloned().unwrap_or_default();
            let std_path = n.errors.iter().any(|(_, m)| m.contains("std") || m.contains("prelude") || m.contains("cannot find"));
            viols.push(CViol {
                signature: format!("C15|{}|accepted-with-std|rejected-in-no_std|{}{}", u.class, code, if std_path { "|names-std-or-prelude-item" } else { "" }),
                unit: u.clone(),
                expected: "compiles in a #![no_std] crate (it does with std)".into(),
                actual: format!("rejected: {code} {msg}"),
            });
        }
    }
    let rule = "cases = integer / float / other declarations of the run-time catalogue (every derive set incl. serde and Arbitrary, const_fn, default, custom error, generics) rendered into a generated #![no_std] lib crate (extern crate alloc; nutype with default-features = false, +serde no-std, +arbitrary); oracle = metamorphic: verdict of rustc in no_std equals the verdict with std (accept). Non-trivial = distinct declaration deriving at least one trait whose impl the macro generates itself.";
    report(env, "C15", tier, &units, &res, viols, rule, true, json!({"units_rejected_in_std_mode_excluded": std_rejected}), t0)
}

/// replay of a compile-verdict case
pub fn replay(env: &Env, case: &Value) -> i32 {
    let prop = case["property"].as_str().unwrap_or("").to_string();
    let expect = match case["expect"].as_str() {
        Some("Accept") => Expect::Accept,
        Some("Reject") => Expect::Reject,
        _ => Expect::NoOpinion,
    };
    let strs = |k: &str| -> Vec<String> { case[k].as_array().map(|a| a.iter().filter_map(|x| x.as_str().map(|s| s.to_string())).collect()).unwrap_or_default() };
    let u = Unit {
        id: "r0001".into(),
        class: case["class"].as_str().unwrap_or("").into(),
        features: strs("features"),
        source: case["source"].as_str().unwrap_or("").into(),
        expect,
        expect_errors: strs("expect_errors"),
        tests_must_fail: strs("tests_must_fail"),
        tests_must_pass: strs("tests_must_pass"),
        decl: case["declaration"].as_str().unwrap_or("").into(),
        nontrivial: true,
    };
    let no_std = case["no_std"].as_bool().unwrap_or(false);
    let units = vec![u];
    let run_tests = !units[0].tests_must_fail.is_empty() || !units[0].tests_must_pass.is_empty();
    let host = case["signature"].as_str().is_some_and(|s| s.contains("host-side"));
    let res = match cf::verdicts(env, &env.work.join(if host { "gen/replaycfhost" } else { "gen/replaycf" }), if host { "rcfhost" } else { "rcf" }, &units, no_std || host, run_tests) {
        Ok(r) => r,
        Err(e) => {
            eprintln!("INCONCLUSIVE: {e}");
            return 2;
        }
    };
    let viols = judge(&prop, &units, &res);
    if viols.is_empty() {
        println!("replay: unit now gets the expected verdict");
        0
    } else {
        for v in viols {
            println!("VIOLATION property={prop} replay=<given>");
            println!("  signature: {}\n  expected: {}\n  actual: {}", v.signature, v.expected, v.actual);
        }
        1
    }
}
