//! vdriver — generates declarations, emits corpus crates, builds them against
//! /repo's working tree, runs the harness, matches known findings, writes replays
//! and evidence.  `vdriver setup | run <Cxx> <quick|thorough> | replay <dir>`

mod cf;
mod corpus;
mod cprops;
mod evidence;
mod expand;
mod findings;
mod fuzz;
mod rt;

use std::path::PathBuf;

pub struct Env {
    pub verif: PathBuf,
    pub repo: PathBuf,
    pub work: PathBuf,
    pub seed: u64,
}

pub const RT_PROPS: &[&str] = &["C01", "C02", "C03", "C04", "C06", "C07", "C09", "C10", "C11", "C12", "C13", "C14", "C16"];

fn main() {
    let args: Vec<String> = std::env::args().collect();
    let verif = PathBuf::from(std::env::var("VERIF_DIR").unwrap_or_else(|_| "/verif".into()));
    let repo = PathBuf::from(std::env::var("VERIF_REPO").unwrap_or_else(|_| "/repo".into()));
    let seed: u64 = std::env::var("VERIF_SEED").ok().and_then(|s| s.trim().parse::<i128>().ok()).map(|v| v as u64).unwrap_or(1);
    let work = std::env::var("VERIF_WORK").map(PathBuf::from).unwrap_or_else(|_| verif.join("work"));
    let env = Env { work, verif, repo, seed };
    std::fs::create_dir_all(&env.work).ok();
    let code = match args.get(1).map(|s| s.as_str()) {
        Some("setup") => rt::setup(&env),
        Some("run") => {
            let prop = args.get(2).expect("property id").to_string();
            let mut tier = args.get(3).cloned().unwrap_or_else(|| "quick".into());
            if let Ok(t) = std::env::var("VERIF_TIER") {
                if t == "quick" || t == "thorough" {
                    tier = t;
                }
            }
            if RT_PROPS.contains(&prop.as_str()) {
                rt::run(&env, &prop, &tier)
            } else if prop == "C08" {
                cprops::run_c08(&env, &tier)
            } else if prop == "C05" {
                cprops::run_c05(&env, &tier)
            } else if prop == "C15" {
                cprops::run_c15(&env, &tier)
            } else {
                eprintln!("unknown property {prop}");
                2
            }
        }
        Some("replay") => rt::replay(&env, args.get(2).expect("replay dir")),
        Some("dump-corpus") => {
            let decls = corpus::rt_decls(&env, "quick");
            for d in &decls {
                println!("{} {} :: {}", d.id, d.tags.join(","), d.decl_text().replace('\n', " "));
            }
            0
        }
        _ => {
            eprintln!("usage: vdriver setup | run <Cxx> <quick|thorough> | replay <dir>");
            2
        }
    };
    std::process::exit(code);
}
