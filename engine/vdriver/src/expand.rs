//! Structural scan of macro expansions for C05 (DESIGN §9 C05): every function of every
//! `__nutype_<T>__` module in the expansion is inspected.

use crate::cf::CfResult;
use crate::corpus::target_dir;
use crate::cprops::CViol;
use crate::Env;
use serde_json::{json, Value};
use std::collections::BTreeSet;
use std::path::Path;
use std::process::Command;
use syn::visit::Visit;
use vmodel::cf::{Expect, Unit};

pub fn expand_crate(env: &Env, ws_dir: &Path, krate: &str, bin: bool) -> Result<String, String> {
    let mut cmd = Command::new("cargo");
    cmd.args(["rustc", "--offline", "-p", krate]);
    cmd.arg(if bin { "--bins" } else { "--lib" });
    cmd.args(["--", "-Zunpretty=expanded"]);
    cmd.current_dir(ws_dir);
    cmd.env("RUSTC_BOOTSTRAP", "1");
    cmd.env("CARGO_TARGET_DIR", target_dir(env).join("expand"));
    cmd.env("CARGO_NET_OFFLINE", "true");
    cmd.env_remove("RUSTFLAGS");
    let out = cmd.output().map_err(|e| e.to_string())?;
    if !out.status.success() {
        return Err(format!("cargo rustc -Zunpretty=expanded failed for {krate}: {}", String::from_utf8_lossy(&out.stderr).lines().rev().take(8).collect::<Vec<_>>().join(" | ")));
    }
    Ok(String::from_utf8_lossy(&out.stdout).to_string())
}

#[derive(Default)]
pub struct ScanStats {
    pub modules: u64,
    pub distinct_modules: u64,
    pub functions: u64,
    pub constructions: u64,
    pub impls: u64,
    pub problems: Vec<(String, String, String)>, // (kind, type name, detail)
}

struct FnScan<'a> {
    type_name: &'a str,
    fn_name: String,
    fn_unsafe: bool,
    stats: &'a mut ScanStats,
}

impl<'a, 'ast> Visit<'ast> for FnScan<'a> {
    fn visit_expr_call(&mut self, c: &'ast syn::ExprCall) {
        if let syn::Expr::Path(p) = &*c.func {
            let last = p.path.segments.last().map(|s| s.ident.to_string()).unwrap_or_default();
            if (last == self.type_name || last == "Self") && c.args.len() == 1 && p.path.segments.len() <= 2 {
                self.stats.constructions += 1;
                let allowed = matches!(self.fn_name.as_str(), "new" | "try_new" | "clone") || (self.fn_name == "new_unchecked" && self.fn_unsafe);
                if !allowed {
                    self.stats.problems.push(("construction-outside-guarded-fn".into(), self.type_name.into(), format!("in fn {}", self.fn_name)));
                }
            }
        }
        syn::visit::visit_expr_call(self, c);
    }
    fn visit_expr_struct(&mut self, s: &'ast syn::ExprStruct) {
        let last = s.path.segments.last().map(|x| x.ident.to_string()).unwrap_or_default();
        if last == self.type_name || last == "Self" {
            self.stats.problems.push(("struct-literal-construction".into(), self.type_name.into(), format!("in fn {}", self.fn_name)));
        }
        syn::visit::visit_expr_struct(self, s);
    }
    fn visit_expr_reference(&mut self, r: &'ast syn::ExprReference) {
        if r.mutability.is_some() && is_field0(&r.expr) {
            self.stats.problems.push(("mutable-borrow-of-inner-field".into(), self.type_name.into(), format!("in fn {}", self.fn_name)));
        }
        syn::visit::visit_expr_reference(self, r);
    }
    fn visit_expr_assign(&mut self, a: &'ast syn::ExprAssign) {
        if is_field0(&a.left) {
            self.stats.problems.push(("assignment-to-inner-field".into(), self.type_name.into(), format!("in fn {}", self.fn_name)));
        }
        syn::visit::visit_expr_assign(self, a);
    }
    fn visit_expr_method_call(&mut self, m: &'ast syn::ExprMethodCall) {
        let name = m.method.to_string();
        if is_field0(&m.receiver) && matches!(name.as_str(), "iter_mut" | "as_mut" | "borrow_mut" | "get_mut" | "deref_mut" | "as_mut_slice" | "as_mut_str" | "clear" | "push" | "push_str" | "insert" | "insert_str" | "truncate" | "extend" | "append" | "retain" | "drain" | "pop" | "remove" | "sort" | "sort_unstable" | "dedup" | "reverse" | "swap" | "fill" | "make_ascii_lowercase" | "make_ascii_uppercase" | "clone_from") {
            self.stats.problems.push(("mutable-view-of-inner-field".into(), self.type_name.into(), format!("{name} in fn {}", self.fn_name)));
        }
        syn::visit::visit_expr_method_call(self, m);
    }
}

/// `<x>.0` where `<x>` is a plain binding (`self`, `place`, `value`), possibly dereferenced / parenthesised
fn is_field0(e: &syn::Expr) -> bool {
    fn simple_base(e: &syn::Expr) -> bool {
        match e {
            syn::Expr::Path(p) => p.path.get_ident().is_some(),
            syn::Expr::Paren(p) => simple_base(&p.expr),
            syn::Expr::Unary(u) if matches!(u.op, syn::UnOp::Deref(_)) => simple_base(&u.expr),
            _ => false,
        }
    }
    match e {
        syn::Expr::Field(f) => matches!(&f.member, syn::Member::Unnamed(i) if i.index == 0) && simple_base(&f.base),
        syn::Expr::Paren(p) => is_field0(&p.expr),
        _ => false,
    }
}

fn scan_module(m: &syn::ItemMod, stats: &mut ScanStats, seen: &mut BTreeSet<String>, flagged_new_unchecked: &dyn Fn(&str) -> Option<bool>) {
    let name = m.ident.to_string();
    let Some(type_name) = name.strip_prefix("__nutype_").and_then(|s| s.strip_suffix("__")) else { return };
    stats.modules += 1;
    let text = quote::ToTokens::to_token_stream(m).to_string();
    if !seen.insert(text) {
        return;
    }
    stats.distinct_modules += 1;
    let Some((_, items)) = &m.content else { return };
    let mut has_new_unchecked = false;
    for it in items {
        match it {
            syn::Item::Struct(s) if s.ident == type_name => {
                for f in s.fields.iter() {
                    if !matches!(f.vis, syn::Visibility::Inherited) {
                        stats.problems.push(("inner-field-not-private".into(), type_name.into(), quote::ToTokens::to_token_stream(&f.vis).to_string()));
                    }
                }
                if s.fields.len() != 1 {
                    stats.problems.push(("unexpected-field-count".into(), type_name.into(), s.fields.len().to_string()));
                }
            }
            syn::Item::Impl(im) => {
                stats.impls += 1;
                let self_is_type = type_mentions(&im.self_ty, type_name);
                if let Some((_, path, _)) = &im.trait_ {
                    let tr = path.segments.last().map(|s| s.ident.to_string()).unwrap_or_default();
                    if self_is_type && matches!(tr.as_str(), "DerefMut" | "AsMut" | "BorrowMut" | "IndexMut") {
                        stats.problems.push(("mutable-view-trait-implemented".into(), type_name.into(), tr));
                    }
                }
                for ii in &im.items {
                    if let syn::ImplItem::Fn(f) = ii {
                        stats.functions += 1;
                        let fn_name = f.sig.ident.to_string();
                        if fn_name == "new_unchecked" && self_is_type {
                            has_new_unchecked = true;
                            if f.sig.unsafety.is_none() {
                                stats.problems.push(("new_unchecked-not-unsafe".into(), type_name.into(), String::new()));
                            }
                        }
                        // any &mut self method on the type handing out &mut to the inner value
                        if self_is_type {
                            if let Some(syn::FnArg::Receiver(r)) = f.sig.inputs.first() {
                                if r.mutability.is_some() && r.reference.is_some() {
                                    if let syn::ReturnType::Type(_, t) = &f.sig.output {
                                        if matches!(&**t, syn::Type::Reference(tr) if tr.mutability.is_some()) {
                                            stats.problems.push(("method-returns-mutable-reference".into(), type_name.into(), fn_name.clone()));
                                        }
                                    }
                                }
                            }
                        }
                        // any function of the expansion that receives a mutable reference to the newtype can
                        // change an existing value (e.g. an overridden Deserialize::deserialize_in_place)
                        for inp in f.sig.inputs.iter() {
                            let mutable_newtype = match inp {
                                syn::FnArg::Receiver(r) => self_is_type && r.reference.is_some() && r.mutability.is_some(),
                                syn::FnArg::Typed(pt) => match &*pt.ty {
                                    syn::Type::Reference(tr) if tr.mutability.is_some() => type_mentions(&tr.elem, type_name) || (self_is_type && matches!(&*tr.elem, syn::Type::Path(p) if p.path.is_ident("Self"))),
                                    _ => false,
                                },
                            };
                            if mutable_newtype {
                                stats.problems.push(("function-takes-mutable-reference-to-newtype".into(), type_name.into(), fn_name.clone()));
                            }
                        }
                        let mut v = FnScan { type_name, fn_name, fn_unsafe: f.sig.unsafety.is_some(), stats };
                        v.visit_block(&f.block);
                    }
                }
            }
            syn::Item::Fn(f) => {
                stats.functions += 1;
                let mut v = FnScan { type_name, fn_name: f.sig.ident.to_string(), fn_unsafe: f.sig.unsafety.is_some(), stats };
                v.visit_block(&f.block);
            }
            _ => {}
        }
    }
    if let Some(flag) = flagged_new_unchecked(type_name) {
        if has_new_unchecked != flag {
            stats.problems.push((
                if has_new_unchecked { "new_unchecked-generated-without-flag".into() } else { "new_unchecked-missing-with-flag".into() },
                type_name.into(),
                String::new(),
            ));
        }
    }
}

fn type_mentions(t: &syn::Type, name: &str) -> bool {
    match t {
        syn::Type::Path(p) => p.path.segments.last().map_or(false, |s| s.ident == name),
        syn::Type::Reference(r) => type_mentions(&r.elem, name),
        _ => false,
    }
}

struct ModWalker<'a> {
    stats: &'a mut ScanStats,
    seen: &'a mut BTreeSet<String>,
    /// within a unit module: does its declaration carry the new_unchecked flag?
    unit_flags: &'a dyn Fn(&str) -> Option<bool>,
    current_unit: Option<String>,
}

impl<'a, 'ast> Visit<'ast> for ModWalker<'a> {
    fn visit_item_mod(&mut self, m: &'ast syn::ItemMod) {
        let name = m.ident.to_string();
        let prev = self.current_unit.clone();
        if (self.unit_flags)(&name).is_some() {
            self.current_unit = Some(name.clone());
        }
        if name.starts_with("__nutype_") {
            let cu = self.current_unit.clone();
            let uf = self.unit_flags;
            let f = move |_t: &str| cu.as_ref().and_then(|u| uf(u));
            scan_module(m, self.stats, self.seen, &f);
        }
        syn::visit::visit_item_mod(self, m);
        self.current_unit = prev;
    }
}

pub fn scan_source(src: &str, stats: &mut ScanStats, seen: &mut BTreeSet<String>, unit_flags: &dyn Fn(&str) -> Option<bool>) -> Result<(), String> {
    let file = syn::parse_file(src).map_err(|e| format!("expansion does not parse: {e}"))?;
    let mut w = ModWalker { stats, seen, unit_flags, current_unit: None };
    w.visit_file(&file);
    Ok(())
}

/// scan the expansions of the C05 crates; returns evidence extras and violations
pub fn structural_scan(env: &Env, res: &CfResult, units: &[Unit]) -> Result<(Value, Vec<CViol>), String> {
    let mut stats = ScanStats::default();
    let mut seen = BTreeSet::new();
    let flags = |unit: &str| -> Option<bool> {
        units.iter().find(|u| u.id == unit).map(|u| u.decl.lines().next().unwrap_or("").contains("new_unchecked"))
    };
    for (name, dir) in &res.crates {
        let ws = dir.parent().unwrap();
        let src = expand_crate(env, ws, name, false)?;
        scan_source(&src, &mut stats, &mut seen, &flags)?;
    }
    // the run-time corpus (every catalogue + random declaration) is scanned too: emit it (no build
    // needed — expansion only) and dump the shards in parallel
    let rt_decls = crate::corpus::rt_decls(env, "quick");
    let rt_dir = env.work.join("gen/rt");
    let names = crate::corpus::emit_rt(env, &rt_dir, "rtcorpus", &rt_decls, &BTreeSet::new(), crate::corpus::SHARDS);
    let rt_flags = |unit: &str| -> Option<bool> { rt_decls.iter().find(|d| d.id == unit).map(|d| d.new_unchecked) };
    let sources: Vec<Result<String, String>> = std::thread::scope(|sc| {
        let hs: Vec<_> = names
            .chunks(4)
            .map(|chunk| {
                let rt_dir = rt_dir.clone();
                sc.spawn(move || chunk.iter().map(|n| expand_crate(env, &rt_dir, n, true)).collect::<Vec<_>>())
            })
            .collect();
        hs.into_iter().flat_map(|h| h.join().unwrap()).collect()
    });
    let before = stats.distinct_modules;
    for src in sources {
        // a shard that does not expand (a unit rejected by the macro) is C08's subject; skip it here
        if let Ok(src) = src {
            scan_source(&src, &mut stats, &mut seen, &rt_flags)?;
        }
    }
    let rt_modules = stats.distinct_modules - before;

    let mut viols = vec![];
    let mut kinds = BTreeSet::new();
    for (kind, ty, detail) in &stats.problems {
        if kinds.insert(kind.clone()) {
            viols.push(CViol {
                signature: format!("C05|structural|{kind}"),
                unit: Unit {
                    id: "structural".into(),
                    class: format!("structural:{kind}"),
                    features: vec![],
                    source: String::new(),
                    expect: Expect::NoOpinion,
                    expect_errors: vec![],
                    tests_must_fail: vec![],
                    tests_must_pass: vec![],
                    decl: format!("expansion of type {ty}"),
                    nontrivial: true,
                },
                expected: "no such construct in any expansion".into(),
                actual: format!("{kind} ({ty}) {detail}"),
            });
        }
    }
    let extra = json!({
        "structural_scan": {
            "nutype_modules_seen": stats.modules,
            "distinct_expansions": stats.distinct_modules,
            "impl_blocks": stats.impls,
            "functions_scanned": stats.functions,
            "construction_sites": stats.constructions,
            "problems": stats.problems.len(),
            "distinct_expansions_from_runtime_corpus": rt_modules,
        }
    });
    if stats.distinct_modules == 0 {
        return Err("structural scan saw no __nutype_*__ module: harness broken".into());
    }
    Ok((extra, viols))
}
