//! Known findings (committed file `/verif/known_findings.json`, never written at run time).
//! A violation is suppressed only if its mechanism signature matches a listed
//! finding exactly or through the finding's glob pattern (`*` = any run of characters).

use serde::Deserialize;
use std::path::Path;

#[derive(Deserialize, Clone, Debug)]
pub struct Finding {
    pub property: String,
    /// glob over the mechanism signature
    pub signature: String,
    pub what: String,
}

#[derive(Deserialize, Default, Debug)]
pub struct Known {
    #[serde(default)]
    pub findings: Vec<Finding>,
    /// informational `fixed: property=<id> <commit> <what failed>` lines; suppress nothing
    #[serde(default)]
    pub fixed: Vec<String>,
}

pub fn load(verif: &Path) -> Known {
    match std::fs::read_to_string(verif.join("known_findings.json")) {
        Ok(s) => serde_json::from_str(&s).expect("known_findings.json must parse"),
        Err(_) => Known::default(),
    }
}

pub fn glob_match(pat: &str, s: &str) -> bool {
    let parts: Vec<&str> = pat.split('*').collect();
    if parts.len() == 1 {
        return pat == s;
    }
    let mut pos = 0usize;
    for (i, p) in parts.iter().enumerate() {
        if i == 0 {
            if !s.starts_with(p) {
                return false;
            }
            pos = p.len();
        } else if i == parts.len() - 1 {
            return s.len() >= pos + p.len() && s[pos..].ends_with(p);
        } else {
            match s[pos..].find(p) {
                Some(j) => pos += j + p.len(),
                None => return false,
            }
        }
    }
    true
}

impl Known {
    pub fn matching(&self, prop: &str, sig: &str) -> Option<&Finding> {
        self.findings.iter().find(|f| f.property == prop && glob_match(&f.signature, sig))
    }
}
