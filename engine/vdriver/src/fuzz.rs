//! Coverage-guided campaign (thorough tier of C01, C04, C06, C09): a cargo-fuzz crate over a
//! sample of the run-time corpus; one libFuzzer target whose first byte selects the property.

use crate::corpus::{target_dir, write_if_changed};
use crate::Env;
use serde_json::{json, Value};
use std::collections::BTreeSet;
use std::path::PathBuf;
use std::process::Command;
use vmodel::Decl;

pub struct FuzzOutcome {
    pub stats: Value,
    /// parsed `VERIF-VIOLATION {..}` payloads
    pub violations: Vec<Value>,
    pub crash_files: Vec<PathBuf>,
    pub inconclusive: Option<String>,
}

fn sample(decls: &[Decl]) -> Vec<Decl> {
    let wanted = ["int-combo", "float-combo", "int-sanitize", "float-sanitize", "str-san", "str-val", "str-regex", "vec-sanitize", "point-sanitize", "int-extreme", "float-arb", "str-arb", "int-narrow", "int-spelling", "float-spelling", "int-perm", "float-perm", "str-perm", "random"];
    let mut out = vec![];
    let mut per_tag: std::collections::BTreeMap<String, usize> = Default::default();
    for d in decls {
        if d.twin_of.is_some() || d.generic != vmodel::Generic::None {
            continue;
        }
        let tag = d.tags.first().cloned().unwrap_or_default();
        let key = tag.split(':').next().unwrap_or("").to_string();
        if !wanted.iter().any(|w| key.starts_with(w)) {
            continue;
        }
        let n = per_tag.entry(format!("{key}/{}", d.inner.family())).or_insert(0);
        *n += 1;
        // every third of a section, at most 14 per (section, family)
        if *n % 3 == 1 && *n / 3 < 14 {
            out.push(d.clone());
        }
    }
    out
}

pub fn run(env: &Env, decls: &[Decl], runs: u64, only_prop: Option<u8>) -> FuzzOutcome {
    let proj = env.work.join("gen/fuzzproj");
    let fdir = proj.join("fuzz");
    std::fs::create_dir_all(fdir.join("src")).ok();
    std::fs::create_dir_all(fdir.join("fuzz_targets")).ok();
    std::fs::create_dir_all(proj.join("src")).ok();
    write_if_changed(&proj.join("Cargo.toml"), "[package]\nname = \"fuzzproj\"\nversion = \"0.0.0\"\nedition = \"2021\"\n\n[workspace]\nmembers = [\".\"]\nexclude = [\"fuzz\"]\n");
    write_if_changed(&proj.join("src/lib.rs"), "");
    let picked = sample(decls);
    let mut wanted: BTreeSet<String> = BTreeSet::new();
    let mut lib = String::from("#![allow(unused)]\n");
    let mut reg = String::new();
    for d in &picked {
        let mut d = d.clone();
        d.twin_of = None;
        write_if_changed(&fdir.join("src").join(format!("{}.rs", d.id)), &d.render_module());
        wanted.insert(format!("{}.rs", d.id));
        lib.push_str(&format!("pub mod {};\n", d.id));
        reg.push_str(&format!("    vlib::types::Entry::{}(&{}::VT),\n", d.inner.entry_variant(), d.id));
    }
    lib.push_str(&format!("pub static REG: &[vlib::types::Entry] = &[\n{reg}];\n"));
    write_if_changed(&fdir.join("src/lib.rs"), &lib);
    wanted.insert("lib.rs".into());
    if let Ok(rd) = std::fs::read_dir(fdir.join("src")) {
        for e in rd.flatten() {
            let n = e.file_name().to_string_lossy().to_string();
            if !wanted.contains(&n) {
                let _ = std::fs::remove_file(e.path());
            }
        }
    }
    write_if_changed(
        &fdir.join("Cargo.toml"),
        &format!(
            r#"[package]
name = "nutype-fuzz"
version = "0.0.0"
edition = "2021"
publish = false

[package.metadata]
cargo-fuzz = true

[lib]
path = "src/lib.rs"

[dependencies]
libfuzzer-sys = "0.4"
nutype = {{ path = "{repo}/nutype", features = ["serde", "regex", "arbitrary", "new_unchecked"] }}
vlib = {{ path = "{verif}/engine/vlib" }}
serde = {{ version = "1", features = ["derive"] }}
regex = "1"
lazy_static = "1"
once_cell = "1"
arbitrary = "1"

[[bin]]
name = "fz_all"
path = "fuzz_targets/fz_all.rs"
test = false
doc = false
bench = false

[workspace]
"#,
            repo = env.repo.display(),
            verif = env.verif.display()
        ),
    );
    write_if_changed(
        &fdir.join("fuzz_targets/fz_all.rs"),
        "#![no_main]\nuse libfuzzer_sys::fuzz_target;\nfuzz_target!(|data: &[u8]| { vlib::fuzz::fuzz_one(nutype_fuzz::REG, data); });\n",
    );
    std::fs::create_dir_all(fdir.join(".cargo")).ok();
    write_if_changed(&fdir.join(".cargo/config.toml"), "[net]\noffline = true\n");
    if !fdir.join("Cargo.lock").exists() {
        let _ = std::fs::copy(env.verif.join("engine/fuzz.lock"), fdir.join("Cargo.lock"));
    }
    let tdir = target_dir(env).join("fuzz");
    let b = Command::new("cargo")
        .args(["+nightly", "fuzz", "build", "--fuzz-dir"])
        .arg(&fdir)
        .args(["-s", "none", "--codegen-units", "16", "--target-dir"])
        .arg(&tdir)
        .arg("fz_all")
        .current_dir(&proj)
        .env("CARGO_NET_OFFLINE", "true")
        .env_remove("RUSTFLAGS")
        .output();
    let b = match b {
        Ok(b) => b,
        Err(e) => return FuzzOutcome { stats: json!({}), violations: vec![], crash_files: vec![], inconclusive: Some(format!("cannot start cargo fuzz: {e}")) },
    };
    if !b.status.success() {
        let tail: Vec<String> = String::from_utf8_lossy(&b.stderr).lines().rev().take(25).map(|s| s.to_string()).collect();
        return FuzzOutcome { stats: json!({}), violations: vec![], crash_files: vec![], inconclusive: Some(format!("cargo fuzz build failed: {}", tail.into_iter().rev().collect::<Vec<_>>().join(" | "))) };
    }
    // seed corpus: one structured input per (property, some declarations), plus an empty-ish one
    let corpus = env.work.join("fuzz-corpus");
    let _ = std::fs::remove_dir_all(&corpus);
    std::fs::create_dir_all(&corpus).ok();
    let artifacts = env.work.join("fuzz-artifacts");
    let _ = std::fs::remove_dir_all(&artifacts);
    std::fs::create_dir_all(&artifacts).ok();
    let n = picked.len().max(1);
    let mut k = 0;
    for p in 0u8..4 {
        if only_prop.map_or(false, |o| o != p) {
            continue;
        }
        for ix in (0..n).step_by((n / 24).max(1)) {
            let mut v = vec![p, (ix & 0xff) as u8, (ix >> 8) as u8];
            match p {
                0 => v.extend([5, 0, 0, 0, 0, 0, 0, 0]),
                1 => v.extend(b"\x00\x00\"ab\""),
                2 => v.extend(b"-12.5e1"),
                _ => v.extend([0xff, 0xff, 0xff, 0xff, 0x20, 0, 0, 0]),
            }
            std::fs::write(corpus.join(format!("seed{k}")), &v).ok();
            k += 1;
            if p == 1 {
                for (f, doc) in [(0u8, &b"[1, 2]"[..]), (1, &b"(5)"[..]), (2, &b"\x05"[..]), (0, &b"{\"a\": 3, \"b\": 1}"[..])] {
                    let mut v = vec![p, (ix & 0xff) as u8, (ix >> 8) as u8, f, (k % 5) as u8];
                    v.extend(doc);
                    std::fs::write(corpus.join(format!("seed{k}")), &v).ok();
                    k += 1;
                }
            }
        }
    }
    let bin = tdir.join("x86_64-unknown-linux-gnu/release/fz_all");
    let out = Command::new(&bin)
        .arg(&corpus)
        .arg(format!("-runs={runs}"))
        .arg(format!("-seed={}", (env.seed % 0xffff_fffe) + 1))
        .args(["-max_len=192", "-len_control=0", "-print_final_stats=1", "-timeout=20", "-rss_limit_mb=4096"])
        .arg(format!("-artifact_prefix={}/", artifacts.display()))
        .env("VERIF_KNOWN_FINDINGS", env.verif.join("known_findings.json"))
        .env("VERIF_FUZZ_PROP", only_prop.map(|p| p.to_string()).unwrap_or_default())
        .output();
    let out = match out {
        Ok(o) => o,
        Err(e) => return FuzzOutcome { stats: json!({}), violations: vec![], crash_files: vec![], inconclusive: Some(format!("cannot run fuzz target: {e}")) },
    };
    let stderr = String::from_utf8_lossy(&out.stderr).to_string();
    let mut stats = serde_json::Map::new();
    for l in stderr.lines() {
        if let Some(rest) = l.strip_prefix("stat::") {
            if let Some((k, v)) = rest.split_once(':') {
                stats.insert(k.trim().to_string(), json!(v.trim().parse::<u64>().unwrap_or(0)));
            }
        }
    }
    let cov_line = stderr.lines().rev().find(|l| l.contains(" cov: ")).unwrap_or("").to_string();
    stats.insert("last_status_line".into(), json!(cov_line));
    stats.insert("declarations_in_target".into(), json!(picked.len()));
    stats.insert("runs_requested".into(), json!(runs));
    stats.insert("seed_corpus_files".into(), json!(k));
    let mut violations = vec![];
    for l in stderr.lines() {
        if let Some(i) = l.find("VERIF-VIOLATION ") {
            if let Ok(v) = serde_json::from_str::<Value>(&l[i + "VERIF-VIOLATION ".len()..]) {
                violations.push(v);
            }
        }
    }
    let crash_files: Vec<PathBuf> = std::fs::read_dir(&artifacts).map(|rd| rd.flatten().map(|e| e.path()).collect()).unwrap_or_default();
    let mut inconclusive = None;
    if !out.status.success() && violations.is_empty() {
        // crash that is not one of ours (timeout / OOM / harness bug): inconclusive, never a violation
        let tail: Vec<&str> = stderr.lines().rev().take(12).collect();
        inconclusive = Some(format!("fuzz target stopped abnormally: {}", tail.into_iter().rev().collect::<Vec<_>>().join(" | ")));
    }
    FuzzOutcome { stats: Value::Object(stats), violations, crash_files, inconclusive }
}
