//! Compile-verdict driver (DESIGN §6): units one per module file, grouped into one lib
//! crate per nutype feature set; `cargo check --message-format=json` in rounds, errors
//! attributed to units by the file of their primary span, rejected units removed until a
//! round is clean. A unit is *rejected* iff it was removed in some round.

use crate::corpus::{target_dir, write_if_changed};
use crate::Env;
use serde_json::Value;
use std::collections::{BTreeMap, BTreeSet};
use std::path::{Path, PathBuf};
use std::process::Command;
use vmodel::cf::{crate_prelude, Unit};

#[derive(Clone, Debug, Default)]
pub struct Verdict {
    pub accepted: bool,
    /// (code, first line of message) of the errors attributed to the unit in the round it was rejected
    pub errors: Vec<(String, String)>,
    pub round: usize,
}

pub struct CfResult {
    pub verdicts: BTreeMap<String, Verdict>,
    pub rounds: usize,
    pub build_s: f64,
    pub crates: Vec<(String, PathBuf)>,
    /// libtest results of generated tests: "unit::path::test" -> passed
    pub tests: BTreeMap<String, bool>,
}

fn crate_name_for(prefix: &str, features: &[String]) -> String {
    if features.is_empty() {
        format!("{prefix}_nofeat")
    } else {
        format!("{prefix}_{}", features.iter().map(|f| f.replace("new_unchecked", "nu").replace("schemars08", "sch")).collect::<Vec<_>>().join("_"))
    }
}

fn member_toml(env: &Env, name: &str, features: &[String], no_std: bool) -> String {
    let has = |f: &str| features.iter().any(|x| x == f);
    let feats: Vec<String> = features.iter().map(|f| format!("{f:?}")).collect();
    let mut deps = String::new();
    if no_std {
        deps.push_str(&format!("nutype = {{ path = \"{}/nutype\", default-features = false, features = [{}] }}\n", env.repo.display(), feats.join(", ")));
        if has("serde") {
            deps.push_str("serde = { version = \"1\", default-features = false, features = [\"derive\", \"alloc\"] }\n");
        }
    } else {
        deps.push_str(&format!("nutype = {{ path = \"{}/nutype\", features = [{}] }}\n", env.repo.display(), feats.join(", ")));
        if has("serde") {
            deps.push_str("serde = { version = \"1\", features = [\"derive\"] }\nserde_json = \"1\"\n");
        }
    }
    if has("regex") {
        deps.push_str("regex = \"1\"\nlazy_static = \"1\"\nonce_cell = \"1\"\n");
    }
    if has("arbitrary") {
        deps.push_str("arbitrary = \"1\"\n");
    }
    // a host-side user of nutype with default features (a build script here; a proc-macro or any other
    // build-dependency does the same): cargo builds ONE nutype_macros for the host, with the union of the
    // features, and that copy expands #[nutype] in this no_std crate
    let host = if no_std && name.contains("host") {
        format!("\n[build-dependencies]\nnutype = {{ path = \"{}/nutype\" }}\n", env.repo.display())
    } else {
        String::new()
    };
    format!("[package]\nname = \"{name}\"\nversion = \"0.1.0\"\nedition = \"2021\"\n\n[lib]\npath = \"src/lib.rs\"\n\n[dependencies]\n{deps}{host}")
}

/// emit the workspace; returns crate names with their unit ids
fn emit(env: &Env, dir: &Path, prefix: &str, units: &[Unit], skip: &BTreeSet<String>, no_std: bool) -> Vec<(String, Vec<String>)> {
    std::fs::create_dir_all(dir.join(".cargo")).ok();
    write_if_changed(&dir.join(".cargo/config.toml"), "[net]\noffline = true\n");
    if !dir.join("Cargo.lock").exists() {
        let _ = std::fs::copy(env.verif.join("engine/corpus.lock"), dir.join("Cargo.lock"));
    }
    let mut groups: BTreeMap<Vec<String>, Vec<&Unit>> = BTreeMap::new();
    for u in units {
        groups.entry(u.features.clone()).or_default().push(u);
    }
    let mut names = vec![];
    for (features, us) in &groups {
        let name = crate_name_for(prefix, features);
        let cdir = dir.join(&name);
        std::fs::create_dir_all(cdir.join("src")).ok();
        write_if_changed(&cdir.join("Cargo.toml"), &member_toml(env, &name, features, no_std));
        if no_std && name.contains("host") {
            write_if_changed(&cdir.join("build.rs"), "fn main() {}\n");
        }
        let has = |f: &str| features.iter().any(|x| x == f);
        let mut lib = String::from("#![allow(unused, non_snake_case, non_camel_case_types, clippy::all)]\n");
        if no_std {
            lib.push_str("#![no_std]\n");
        }
        lib.push_str("extern crate alloc;\n");
        lib.push_str("pub mod prelude {\n");
        lib.push_str(&crate_prelude(no_std, has("serde"), has("arbitrary")));
        lib.push_str("}\n");
        let mut wanted: BTreeSet<String> = BTreeSet::new();
        let mut ids = vec![];
        for u in us {
            if skip.contains(&u.id) {
                continue;
            }
            lib.push_str(&format!("pub mod {};\n", u.id));
            let f = format!("{}.rs", u.id);
            write_if_changed(&cdir.join("src").join(&f), &u.source);
            wanted.insert(f);
            ids.push(u.id.clone());
        }
        write_if_changed(&cdir.join("src/lib.rs"), &lib);
        wanted.insert("lib.rs".into());
        if let Ok(rd) = std::fs::read_dir(cdir.join("src")) {
            for e in rd.flatten() {
                let n = e.file_name().to_string_lossy().to_string();
                if !wanted.contains(&n) {
                    let _ = std::fs::remove_file(e.path());
                }
            }
        }
        names.push((name, ids));
    }
    let members: Vec<String> = names.iter().map(|(n, _)| n.clone()).collect();
    write_if_changed(
        &dir.join("Cargo.toml"),
        &format!(
            "[workspace]\nresolver = \"2\"\nmembers = [{}]\n\n[profile.dev]\nopt-level = 0\ndebug = 0\nincremental = false\n\n[profile.test]\nopt-level = 0\ndebug = 0\nincremental = false\n",
            members.iter().map(|m| format!("{m:?}")).collect::<Vec<_>>().join(", ")
        ),
    );
    if let Ok(rd) = std::fs::read_dir(dir) {
        for e in rd.flatten() {
            let n = e.file_name().to_string_lossy().to_string();
            if n.starts_with(prefix) && e.path().is_dir() && !members.contains(&n) {
                let _ = std::fs::remove_dir_all(e.path());
            }
        }
    }
    names
}

/// one `cargo check`; errors per unit, and errors that cannot be attributed
fn check_round(env: &Env, dir: &Path, krate: &str, with_tests: bool) -> (bool, BTreeMap<String, Vec<(String, String)>>, Vec<String>) {
    // one invocation per crate: with `--workspace` cargo would unify the features of nutype across
    // the members and the per-feature-set isolation would be lost
    let mut cmd = Command::new("cargo");
    cmd.args(["check", "--message-format=json", "--offline", "-p", krate, "--lib"]);
    if with_tests {
        // also under cfg(test): the macro generates #[test]s into the user's crate
        cmd.arg("--tests");
    }
    cmd.current_dir(dir);
    cmd.env("CARGO_TARGET_DIR", target_dir(env));
    cmd.env("CARGO_NET_OFFLINE", "true");
    cmd.env_remove("RUSTFLAGS");
    let out = cmd.output().expect("cargo");
    let mut per: BTreeMap<String, Vec<(String, String)>> = BTreeMap::new();
    let mut other = vec![];
    for line in String::from_utf8_lossy(&out.stdout).lines() {
        let Ok(v) = serde_json::from_str::<Value>(line) else { continue };
        if v.get("reason").and_then(|r| r.as_str()) != Some("compiler-message") {
            continue;
        }
        let m = &v["message"];
        if m["level"].as_str() != Some("error") {
            continue;
        }
        let text = m["message"].as_str().unwrap_or("").to_string();
        if text.starts_with("aborting due to") || text.starts_with("could not compile") {
            continue;
        }
        let code = m["code"]["code"].as_str().unwrap_or("").to_string();
        match unit_of(m) {
            Some(u) => per.entry(u).or_default().push((code, text.lines().next().unwrap_or("").to_string())),
            None => other.push(format!("{code} {}", text.lines().next().unwrap_or(""))),
        }
    }
    if !out.status.success() && per.is_empty() && other.is_empty() {
        other.push(format!("cargo failed: {}", String::from_utf8_lossy(&out.stderr).lines().rev().take(12).collect::<Vec<_>>().join(" | ")));
    }
    (out.status.success(), per, other)
}

fn unit_of(m: &Value) -> Option<String> {
    let spans = m["spans"].as_array()?;
    let ordered: Vec<&Value> = spans.iter().filter(|s| s["is_primary"].as_bool() == Some(true)).chain(spans.iter()).collect();
    for sp in ordered {
        let mut cur = sp;
        loop {
            let f = cur["file_name"].as_str().unwrap_or("");
            if !f.starts_with('/') && f.contains("src/") && !f.ends_with("lib.rs") {
                return Some(f.rsplit('/').next().unwrap_or("").trim_end_matches(".rs").to_string());
            }
            match cur.get("expansion") {
                Some(e) if !e.is_null() => cur = &e["span"],
                _ => break,
            }
        }
    }
    None
}

pub fn verdicts(env: &Env, dir: &Path, prefix: &str, units: &[Unit], no_std: bool, run_tests: bool) -> Result<CfResult, String> {
    let t0 = std::time::Instant::now();
    let mut verdicts: BTreeMap<String, Verdict> = BTreeMap::new();
    let mut skip: BTreeSet<String> = BTreeSet::new();
    let mut rounds = 0;
    let mut crates = vec![];
    for round in 1..=10 {
        rounds = round;
        let names = emit(env, dir, prefix, units, &skip, no_std);
        crates = names.iter().map(|(n, _)| (n.clone(), dir.join(n))).collect();
        let mut ok = true;
        let mut per: BTreeMap<String, Vec<(String, String)>> = BTreeMap::new();
        let mut other = vec![];
        for (krate, ids) in &names {
            if ids.is_empty() {
                continue;
            }
            let (k_ok, k_per, k_other) = check_round(env, dir, krate, run_tests);
            ok &= k_ok;
            per.extend(k_per);
            other.extend(k_other);
        }
        if per.is_empty() {
            if ok {
                break;
            }
            return Err(format!("compile-verdict build failed with errors not attributable to a unit: {}", other.join(" || ")));
        }
        for (u, errs) in per {
            skip.insert(u.clone());
            verdicts.insert(u, Verdict { accepted: false, errors: errs, round });
        }
        if round == 10 {
            return Err("compile-verdict rounds did not converge".into());
        }
    }
    for u in units {
        verdicts.entry(u.id.clone()).or_insert(Verdict { accepted: true, errors: vec![], round: rounds });
    }
    let mut tests = BTreeMap::new();
    if run_tests {
        let mut cmd = Command::new("cargo");
        // generated tests are observed in the crate with all features (where the units with expectations live)
        let all = crates.iter().map(|(n, _)| n.clone()).max_by_key(|n| n.len()).unwrap_or_default();
        cmd.args(["test", "--offline", "-p", &all, "--lib", "--no-fail-fast", "--", "--test-threads", "8"]);
        cmd.current_dir(dir);
        cmd.env("CARGO_TARGET_DIR", target_dir(env));
        cmd.env("CARGO_NET_OFFLINE", "true");
        cmd.env_remove("RUSTFLAGS");
        let out = cmd.output().map_err(|e| e.to_string())?;
        for line in String::from_utf8_lossy(&out.stdout).lines() {
            // test u0123::__nutype_T__::tests::should_have_valid_default_value ... FAILED
            let Some(rest) = line.strip_prefix("test ") else { continue };
            let Some((name, res)) = rest.rsplit_once(" ... ") else { continue };
            if res.trim() == "ok" {
                tests.insert(name.trim().to_string(), true);
            } else if res.trim().starts_with("FAILED") {
                tests.insert(name.trim().to_string(), false);
            }
        }
    }
    Ok(CfResult { verdicts, rounds, build_s: t0.elapsed().as_secs_f64(), crates, tests })
}
