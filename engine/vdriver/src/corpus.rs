//! Corpus emission and building (with exclusion rounds: a unit the macro rejects is
//! removed and the build repeated, DESIGN §6).

use crate::Env;
use serde_json::Value;
use std::collections::{BTreeMap, BTreeSet};
use std::path::{Path, PathBuf};
use std::process::Command;
use vmodel::catalogue;
use vmodel::Decl;

pub fn rt_decls(env: &Env, tier: &str) -> Vec<Decl> {
    let mut decls = rt_decls_catalogue();
    // seed-dependent random declarations from the same grammar (own id prefix, own shards)
    let n = if tier == "thorough" { 600 } else { 150 };
    if std::env::var("VERIF_FILTER").is_err() {
        decls.extend(catalogue::finalize(vmodel::random::random_decls(env.seed, n), "r"));
    }
    decls
}

fn rt_decls_catalogue() -> Vec<Decl> {
    let mut decls = catalogue::catalogue();
    if let Ok(f) = std::env::var("VERIF_FILTER") {
        // debugging aid: keep only declarations with a tag containing the filter (twin bases are kept with their twins)
        let keep: Vec<bool> = decls.iter().map(|d| d.tags.iter().any(|t| t.contains(&f))).collect();
        let mut i = 0;
        decls.retain(|_| { i += 1; keep[i - 1] || (i < keep.len() && keep[i]) });
    }
    catalogue::finalize(decls, "d")
}

pub fn write_if_changed(p: &Path, content: &str) -> bool {
    if let Ok(old) = std::fs::read_to_string(p) {
        if old == content {
            return false;
        }
    }
    if let Some(dir) = p.parent() {
        std::fs::create_dir_all(dir).ok();
    }
    std::fs::write(p, content).expect("write");
    true
}

pub struct Built {
    pub bins: Vec<PathBuf>,
    /// units rejected by rustc/the macro: id -> first error line
    pub rejected: BTreeMap<String, String>,
    pub rounds: usize,
    pub build_s: f64,
}

/// number of corpus crates built in parallel
pub const SHARDS: usize = 16;

pub fn member_toml(env: &Env, name: &str, nutype_features: &[&str]) -> String {
    let feats: Vec<String> = nutype_features.iter().map(|f| format!("{f:?}")).collect();
    format!(
        r#"[package]
name = "{name}"
version = "0.1.0"
edition = "2021"

[dependencies]
nutype = {{ path = "{repo}/nutype", features = [{feats}] }}
vlib = {{ path = "{verif}/engine/vlib" }}
serde = {{ version = "1", features = ["derive"] }}
serde_json = "1"
regex = "1"
lazy_static = "1"
once_cell = "1"
arbitrary = "1"
"#,
        repo = env.repo.display(),
        verif = env.verif.display(),
        feats = feats.join(", ")
    )
}

pub fn workspace_toml(members: &[String]) -> String {
    workspace_toml_da(members, true)
}

/// `debug_assertions = false` gives the dev profile of the second ("release-like") sample corpus:
/// `debug_assert!` / `cfg!(debug_assertions)` branches disappear, overflow checks stay
pub fn workspace_toml_da(members: &[String], debug_assertions: bool) -> String {
    let t = workspace_toml_inner(members);
    if debug_assertions {
        t
    } else {
        t.replacen("debug-assertions = true", "debug-assertions = false", 1)
    }
}

fn workspace_toml_inner(members: &[String]) -> String {
    format!(
        r#"[workspace]
resolver = "2"
members = [{}]

[profile.dev]
opt-level = 1
debug = 0
debug-assertions = true
overflow-checks = true
incremental = false

[profile.release]
opt-level = 2
debug = 0
debug-assertions = false
overflow-checks = false
incremental = false
"#,
        members.iter().map(|m| format!("{m:?}")).collect::<Vec<_>>().join(", ")
    )
}

pub const RT_FEATURES: &[&str] = &["serde", "regex", "arbitrary", "new_unchecked"];

/// Emit the run-time corpus: a workspace of `shards` binary crates `<name>0..`, each with
/// its own registry (twins stay in the crate of their base).
pub fn emit_rt(env: &Env, dir: &Path, name: &str, decls: &[Decl], skip: &BTreeSet<String>, shards: usize) -> Vec<String> {
    std::fs::create_dir_all(dir).ok();
    std::fs::create_dir_all(dir.join(".cargo")).ok();
    write_if_changed(&dir.join(".cargo/config.toml"), "[net]\noffline = true\n");
    if !dir.join("Cargo.lock").exists() {
        // seed the lock file (itself seeded from /repo/Cargo.lock) so resolution works offline
        let _ = std::fs::copy(env.verif.join("engine/corpus.lock"), dir.join("Cargo.lock"));
    }
    let kept: Vec<Decl> = decls
        .iter()
        .filter(|d| !skip.contains(&d.id))
        .cloned()
        .map(|mut d| {
            // a twin whose base was rejected loses its twin link
            if let Some(t) = &d.twin_of {
                if skip.contains(t) {
                    d.twin_of = None;
                }
            }
            d
        })
        .collect();
    let shards = shards.min(kept.len().max(1));
    let mut parts: Vec<Vec<Decl>> = vec![vec![]; shards];
    let mut where_is: BTreeMap<String, usize> = BTreeMap::new();
    // random (seed-dependent) declarations get dedicated shards so that a new seed rebuilds only those
    let has_random = kept.iter().any(|d| d.id.starts_with('r')) && shards >= 4;
    let sys_shards = if has_random { shards - 2 } else { shards };
    let mut rr = 0usize;
    let mut rr_rand = 0usize;
    for d in kept {
        let k = match d.twin_of.as_ref().and_then(|t| where_is.get(t)) {
            Some(k) => *k,
            None if has_random && d.id.starts_with('r') => {
                rr_rand += 1;
                sys_shards + (rr_rand - 1) % 2
            }
            None => {
                rr += 1;
                (rr - 1) % sys_shards
            }
        };
        where_is.insert(d.id.clone(), k);
        parts[k].push(d);
    }
    let names: Vec<String> = (0..shards).map(|k| format!("{name}{k}")).collect();
    // corpora named `nda…` are built without debug assertions
    write_if_changed(&dir.join("Cargo.toml"), &workspace_toml_da(&names, !name.starts_with("nda")));
    for (k, part) in parts.iter().enumerate() {
        let cdir = dir.join(&names[k]);
        std::fs::create_dir_all(cdir.join("src")).ok();
        write_if_changed(&cdir.join("Cargo.toml"), &member_toml(env, &names[k], RT_FEATURES));
        let mut wanted: BTreeSet<String> = BTreeSet::new();
        for d in part {
            let f = format!("{}.rs", d.id);
            write_if_changed(&cdir.join("src").join(&f), &d.render_module());
            wanted.insert(f);
        }
        write_if_changed(&cdir.join("src/main.rs"), &vmodel::render_main(part));
        wanted.insert("main.rs".into());
        if let Ok(rd) = std::fs::read_dir(cdir.join("src")) {
            for e in rd.flatten() {
                let n = e.file_name().to_string_lossy().to_string();
                if !wanted.contains(&n) {
                    let _ = std::fs::remove_file(e.path());
                }
            }
        }
    }
    // remove stale member directories
    if let Ok(rd) = std::fs::read_dir(dir) {
        for e in rd.flatten() {
            let n = e.file_name().to_string_lossy().to_string();
            if n.starts_with(name) && e.path().is_dir() && !names.contains(&n) {
                let _ = std::fs::remove_dir_all(e.path());
            }
        }
    }
    names
}

pub fn target_dir(env: &Env) -> PathBuf {
    env.work.join("target")
}

/// one `cargo build --message-format=json`; returns (ok, errors attributed to src files, other errors)
pub fn cargo_build(env: &Env, dir: &Path, release: bool, check_only: bool) -> (bool, BTreeMap<String, String>, Vec<String>) {
    let mut cmd = Command::new("cargo");
    cmd.arg(if check_only { "check" } else { "build" });
    if release {
        cmd.arg("--release");
    }
    cmd.arg("--message-format=json").arg("--offline");
    cmd.current_dir(dir);
    cmd.env("CARGO_TARGET_DIR", target_dir(env));
    cmd.env("CARGO_NET_OFFLINE", "true");
    cmd.env_remove("RUSTFLAGS");
    let out = cmd.output().expect("cargo");
    let mut per_file: BTreeMap<String, String> = BTreeMap::new();
    let mut other: Vec<String> = vec![];
    for line in String::from_utf8_lossy(&out.stdout).lines() {
        let Ok(v) = serde_json::from_str::<Value>(line) else { continue };
        if v.get("reason").and_then(|r| r.as_str()) != Some("compiler-message") {
            continue;
        }
        let m = &v["message"];
        if m["level"].as_str() != Some("error") {
            continue;
        }
        let text = m["message"].as_str().unwrap_or("").to_string();
        let code = m["code"]["code"].as_str().unwrap_or("").to_string();
        if text.starts_with("aborting due to") {
            continue;
        }
        let file = primary_file(m);
        match file {
            Some(f) if f.contains("src/") && !f.ends_with("src/main.rs") && !f.starts_with('/') => {
                let unit = f.rsplit('/').next().unwrap_or("").trim_end_matches(".rs").to_string();
                per_file.entry(unit).or_insert_with(|| format!("{code} {}", text.lines().next().unwrap_or("")));
            }
            _ => other.push(format!("{code} {text} @ {file:?}")),
        }
    }
    if !out.status.success() && per_file.is_empty() && other.is_empty() {
        other.push(format!("cargo failed: {}", String::from_utf8_lossy(&out.stderr).lines().rev().take(15).collect::<Vec<_>>().join(" | ")));
    }
    (out.status.success(), per_file, other)
}

/// file of the primary span, following macro expansions back to the call site
fn primary_file(m: &Value) -> Option<String> {
    let spans = m["spans"].as_array()?;
    let sp = spans.iter().find(|s| s["is_primary"].as_bool() == Some(true)).or_else(|| spans.first())?;
    let mut cur = sp;
    loop {
        let f = cur["file_name"].as_str().unwrap_or("");
        if f.contains("src/") && !f.starts_with('/') {
            return Some(f.to_string());
        }
        match cur.get("expansion") {
            Some(e) if !e.is_null() => cur = &e["span"],
            _ => return Some(f.to_string()),
        }
    }
}

/// Build the corpus, removing rejected units until a round is clean.
pub fn build_rt(env: &Env, dir: &Path, name: &str, decls: &[Decl], release: bool) -> Result<Built, String> {
    let t0 = std::time::Instant::now();
    let mut rejected: BTreeMap<String, String> = BTreeMap::new();
    for round in 1..=8 {
        let skip: BTreeSet<String> = rejected.keys().cloned().collect();
        let names = emit_rt(env, dir, name, decls, &skip, SHARDS);
        let (ok, per_file, other) = cargo_build(env, dir, release, false);
        if ok {
            let bins = names.iter().map(|n| target_dir(env).join(if release { "release" } else { "debug" }).join(n)).collect();
            return Ok(Built { bins, rejected, rounds: round, build_s: t0.elapsed().as_secs_f64() });
        }
        if per_file.is_empty() {
            return Err(format!("corpus build failed with errors not attributable to a unit: {}", other.join(" || ")));
        }
        for (k, v) in per_file {
            rejected.entry(k).or_insert(v);
        }
    }
    Err("corpus build did not converge in 8 rounds".into())
}

/// A stratified sample of the corpus (up to `per_class` declarations of every catalogue class, with the
/// bases of sampled twins), for the second build of the run-time corpus under the other setting of
/// `debug-assertions`.
pub fn class_sample(decls: &[Decl], per_class: usize) -> Vec<Decl> {
    let mut count: BTreeMap<String, usize> = BTreeMap::new();
    let mut picked: BTreeSet<String> = BTreeSet::new();
    for d in decls {
        let tag = d.tags.first().cloned().unwrap_or_default();
        let key: String = tag.split(':').take(2).collect::<Vec<_>>().join(":");
        let key = if tag.starts_with("random") { "random".to_string() } else { key };
        let cap = if key == "random" { per_class * 12 } else { per_class };
        let n = count.entry(key).or_insert(0);
        if *n < cap {
            *n += 1;
            picked.insert(d.id.clone());
            if let Some(t) = &d.twin_of {
                picked.insert(t.clone());
            }
        }
    }
    decls.iter().filter(|d| picked.contains(&d.id)).cloned().collect()
}
