//! Input generators (DESIGN §5). `systematic` is seed-independent and de-duplicated
//! (so every (declaration, input) pair evaluated from it is distinct); `strategy`
//! is a proptest strategy driven by the seeded runner.

use crate::model;
use crate::types::*;
use proptest::prelude::*;
use proptest::strategy::ValueTree;
use proptest::test_runner::{Config, RngAlgorithm, TestRng, TestRunner};

#[derive(Clone, Copy, Debug, PartialEq, Eq)]
pub enum Tier {
    Quick,
    Thorough,
}

pub fn runner(seed: u64, salt: &str, cases: u32) -> TestRunner {
    let mut bytes = [0u8; 32];
    bytes[..8].copy_from_slice(&seed.to_le_bytes());
    let h = fixed_hash(salt);
    bytes[8..16].copy_from_slice(&h.to_le_bytes());
    bytes[16..24].copy_from_slice(&0x6e75_7479_7065_5f76u64.to_le_bytes());
    let rng = TestRng::from_seed(RngAlgorithm::ChaCha, &bytes);
    let cfg = Config { failure_persistence: None, cases, max_shrink_iters: 4096, ..Config::default() };
    TestRunner::new_with_rng(cfg, rng)
}

pub fn sample<T: std::fmt::Debug>(r: &mut TestRunner, s: &BoxedStrategy<T>, n: usize) -> Vec<T> {
    (0..n).map(|_| s.new_tree(r).expect("strategy").current()).collect()
}

/// The hostile alphabet Σ of DESIGN §5.
pub const SIGMA: &[char] = &[
    ' ', '\t', '\n', '\u{0B}', '\u{0C}', '\r', '\u{85}', '\u{A0}', '\u{1680}', '\u{2000}', '\u{2028}', '\u{2029}',
    '\u{202F}', '\u{205F}', '\u{3000}', // White_Space
    '\u{200B}', '\u{FEFF}', '\u{180E}', // look-alikes that are not White_Space
    'a', 'Z', '0', 'ß', 'İ', 'ŉ', 'ﬁ', 'Σ', 'σ', 'ς', 'ǅ', '\u{212A}', '\u{0307}', '😀', '\0', '@', '!', 'X',
];

pub trait Inputs: InnerTy {
    fn systematic(m: &Model<Self>, tier: Tier) -> Vec<Self>;
    fn strategy(m: &Model<Self>) -> BoxedStrategy<Self>;
    /// is `self` within two steps (units / ulps / chars) of a declared bound?
    fn near_bound(&self, m: &Model<Self>) -> bool;
}

fn dedup<I: InnerTy>(mut v: Vec<I>) -> Vec<I> {
    let mut seen = std::collections::HashSet::new();
    v.retain(|x| seen.insert(x.key()));
    v
}

macro_rules! int_inputs {
    ($($t:ty),*) => {$(
        impl Inputs for $t {
            fn systematic(m: &Model<Self>, tier: Tier) -> Vec<Self> {
                let mut v: Vec<$t> = vec![];
                if std::mem::size_of::<$t>() <= 2 {
                    let mut x = <$t>::MIN;
                    loop {
                        v.push(x);
                        if x == <$t>::MAX { break; }
                        x += 1;
                    }
                    return v;
                }
                let mut seeds: Vec<$t> = model::bounds(m);
                seeds.extend([<$t>::MIN, <$t>::MAX, 0, 1, 2, 7, 10, 11, 100]);
                #[allow(unused_comparisons)]
                if <$t>::MIN < 0 {
                    seeds.extend([(0 as $t).wrapping_sub(1), (0 as $t).wrapping_sub(5), (0 as $t).wrapping_sub(100)]);
                }
                for sh in 0..(std::mem::size_of::<$t>() * 8 - 1) {
                    seeds.push((1 as $t) << sh);
                }
                let span: i32 = if tier == Tier::Thorough { 64 } else { 3 };
                for s in seeds {
                    for d in -span..=span {
                        let c = if d < 0 { s.checked_sub((-d) as $t) } else { s.checked_add(d as $t) };
                        if let Some(c) = c { v.push(c); }
                    }
                }
                dedup(v)
            }
            fn strategy(m: &Model<Self>) -> BoxedStrategy<Self> {
                let bs = model::bounds(m);
                if bs.is_empty() {
                    any::<$t>().boxed()
                } else {
                    let near = proptest::sample::select(bs).prop_flat_map(|b| {
                        (-1000i32..=1000).prop_map(move |d| if d < 0 { b.saturating_sub((-d) as $t) } else { b.saturating_add(d as $t) })
                    });
                    prop_oneof![any::<$t>(), near].boxed()
                }
            }
            fn near_bound(&self, m: &Model<Self>) -> bool {
                model::bounds(m).iter().any(|b| {
                    let d = if *self > *b { (*self as i128).wrapping_sub(*b as i128) } else { (*b as i128).wrapping_sub(*self as i128) };
                    (0..=2).contains(&d)
                })
            }
        }
    )*};
}
int_inputs!(u8, u16, u32, u64, u128, usize, i8, i16, i32, i64, i128, isize);

macro_rules! float_inputs {
    ($t:ty, $bits:ty) => {
        impl Inputs for $t {
            fn systematic(m: &Model<Self>, tier: Tier) -> Vec<Self> {
                let mut v: Vec<$t> = special_floats::<$t>();
                let steps: i64 = if tier == Tier::Thorough { 64 } else { 3 };
                let mut centres = model::bounds(m);
                centres.extend([-5.0, 100.0, 50.0, 10.0, 0.0, 1.0, -1.0, <$t>::MAX, <$t>::MIN, <$t>::MIN_POSITIVE]);
                for b in centres {
                    if b.is_nan() {
                        continue;
                    }
                    // walk ulps on the monotone integer image of the float line
                    let key = float_key(b.to_bits() as u64, <$bits>::BITS);
                    for d in -steps..=steps {
                        let k = key as i128 + d as i128;
                        if k < 0 || k > float_key_max(<$bits>::BITS) as i128 {
                            continue;
                        }
                        v.push(<$t>::from_bits(float_unkey(k as u64, <$bits>::BITS) as $bits));
                    }
                    v.push(-b);
                    v.push(b + 1.0);
                    v.push(b - 1.0);
                }
                dedup(v)
            }
            fn strategy(_m: &Model<Self>) -> BoxedStrategy<Self> {
                prop_oneof![
                    any::<$bits>().prop_map(<$t>::from_bits),
                    (-1000i32..=1000, 0u32..=1000).prop_map(|(a, b)| a as $t + (b as $t) / 1000.0),
                    any::<$t>(),
                ]
                .boxed()
            }
            fn near_bound(&self, m: &Model<Self>) -> bool {
                if self.is_nan() {
                    return false;
                }
                let k = float_key(self.to_bits() as u64, <$bits>::BITS) as i128;
                model::bounds(m).iter().any(|b| {
                    !b.is_nan() && (k - float_key(b.to_bits() as u64, <$bits>::BITS) as i128).abs() <= 2
                })
            }
        }
    };
}
float_inputs!(f32, u32);
float_inputs!(f64, u64);

/// monotone map of float bit patterns (non-NaN) onto integers: -inf -> 0 ... +inf -> max
pub fn float_key(bits: u64, width: u32) -> u64 {
    let sign = 1u64 << (width - 1);
    if bits & sign != 0 {
        // negative: larger magnitude -> smaller key
        (sign - 1) - (bits & (sign - 1))
    } else {
        sign + bits
    }
}
pub fn float_unkey(key: u64, width: u32) -> u64 {
    let sign = 1u64 << (width - 1);
    if key >= sign {
        key - sign
    } else {
        sign | ((sign - 1) - key)
    }
}
pub fn float_key_max(width: u32) -> u64 {
    // key of +inf
    let sign = 1u64 << (width - 1);
    let inf = if width == 32 { f32::INFINITY.to_bits() as u64 } else { f64::INFINITY.to_bits() };
    sign + inf
}

pub trait FloatBits: Copy {
    fn fb(bits: u64) -> Self;
    const W: u32;
    const MANT: u32;
}
impl FloatBits for f32 {
    fn fb(bits: u64) -> Self {
        f32::from_bits(bits as u32)
    }
    const W: u32 = 32;
    const MANT: u32 = 23;
}
impl FloatBits for f64 {
    fn fb(bits: u64) -> Self {
        f64::from_bits(bits)
    }
    const W: u32 = 64;
    const MANT: u32 = 52;
}

/// ±0, subnormals, extremes, infinities, quiet and signalling NaNs with several payloads
pub fn special_floats<F: FloatBits>() -> Vec<F> {
    let w = F::W;
    let mant = F::MANT;
    let sign = 1u64 << (w - 1);
    let exp_all = ((1u64 << (w - 1 - mant)) - 1) << mant;
    let mant_all = (1u64 << mant) - 1;
    let quiet = 1u64 << (mant - 1);
    let one = ((1u64 << (w - 2 - mant)) - 1) << mant; // biased exponent of 1.0
    let mut pos = vec![
        0,
        1,
        2,
        mant_all,              // max subnormal
        1 << mant,             // MIN_POSITIVE
        (1 << mant) + 1,
        one,                   // 1.0
        one - 1,
        one + 1,
        exp_all - 1,           // MAX
        exp_all - 2,
        exp_all,               // inf
        exp_all | quiet,       // canonical quiet NaN
        exp_all | quiet | 1,   // quiet NaN with payload
        exp_all | 1,           // signalling NaN
        exp_all | (quiet - 1), // signalling NaN, max payload
        exp_all | mant_all,    // all-ones NaN
    ];
    let neg: Vec<u64> = pos.iter().map(|b| b | sign).collect();
    pos.extend(neg);
    pos.into_iter().map(F::fb).collect()
}

fn strings_upto(alpha: &[char], max_len: usize) -> Vec<String> {
    let mut out = vec![String::new()];
    let mut frontier = vec![String::new()];
    for _ in 0..max_len {
        let mut next = Vec::with_capacity(frontier.len() * alpha.len());
        for s in &frontier {
            for c in alpha {
                let mut t = s.clone();
                t.push(*c);
                next.push(t);
            }
        }
        out.extend(next.iter().cloned());
        frontier = next;
    }
    out
}

impl Inputs for String {
    fn systematic(m: &Model<Self>, tier: Tier) -> Vec<Self> {
        // all strings over Σ up to length 2 (quick) / 3 (thorough); a reduced alphabet one level deeper
        let mut v = strings_upto(SIGMA, if tier == Tier::Thorough { 3 } else { 2 });
        let small: &[char] = &[' ', '\u{85}', '\u{2003}', '\u{200B}', 'a', 'Z', 'ß', 'İ', 'ﬁ', 'ς', '@', '!'];
        v.extend(strings_upto(small, if tier == Tier::Thorough { 4 } else { 3 }));
        // strings at each len bound ±1 in chars, with multi-byte chars and padding
        let mut lens = model::len_bounds(m);
        lens.extend([5, 1, 0]); // trunc5 and not_empty neighbourhoods
        for n in lens {
            if n > 4096 {
                continue;
            }
            for k in n.saturating_sub(1)..=n + 1 {
                for fill in ['a', 'ß', 'İ', '😀', 'Z', ' ', '\u{2003}'] {
                    let core: String = std::iter::repeat(fill).take(k).collect();
                    v.push(core.clone());
                    v.push(format!(" {core}"));
                    v.push(format!("{core}\u{85}"));
                    v.push(format!("\u{3000}{core}\t"));
                    v.push(format!("x{core}"));
                    v.push(format!("{core}@"));
                    v.push(format!("{core}!"));
                }
            }
        }
        // long inputs around power-of-two sizes (small-buffer / fast-path thresholds), in bytes and in chars
        for n in [15usize, 16, 17, 31, 32, 33, 63, 64, 65, 127, 128, 129, 255, 256, 257, 1023, 1024, 1025, 4097] {
            for fill in ["a", "ß", "😀", "aZ "] {
                let core: String = fill.chars().cycle().take(n).collect();
                v.push(core.clone());
                v.push(format!("  {core}\u{2003}"));
                v.push(format!("{core}@"));
            }
        }
        for s in ["foo@bar.com", "  Hello World  ", "STRASSE", "straße", "ΟΔΥΣΣΕΥΣ", "İstanbul", "ǅungla", "a!b", "aaa", "ŉŉŉ", "ﬁﬁ"] {
            v.push(s.to_string());
        }
        dedup(v)
    }
    fn strategy(_m: &Model<Self>) -> BoxedStrategy<Self> {
        let sig: Vec<char> = SIGMA.to_vec();
        prop_oneof![
            4 => proptest::collection::vec(proptest::sample::select(sig), 0..12).prop_map(|cs| cs.into_iter().collect::<String>()),
            4 => proptest::collection::vec(any::<char>(), 0..24).prop_map(|cs| cs.into_iter().collect::<String>()),
            4 => ".{0,16}".prop_map(|s| s),
            4 => "[ \\t\\n]{0,3}[a-zA-Z@!ßİ]{0,10}[ \\u{85}\\u{3000}]{0,3}".prop_map(|s| s),
            1 => proptest::collection::vec(proptest::sample::select(SIGMA.to_vec()), 24..300).prop_map(|cs| cs.into_iter().collect::<String>()),
        ]
        .boxed()
    }
    fn near_bound(&self, m: &Model<Self>) -> bool {
        let n = model::char_len(model::sanitize(m, self.clone()).as_str());
        model::len_bounds(m).iter().any(|b| (n as i64 - *b as i64).abs() <= 1)
    }
}

impl Inputs for Vec<i32> {
    fn systematic(_m: &Model<Self>, tier: Tier) -> Vec<Self> {
        let alpha = [-1, 0, 1, 7, 50, 101, i32::MAX, i32::MIN];
        let maxl = if tier == Tier::Thorough { 5 } else { 4 };
        let mut out: Vec<Vec<i32>> = vec![vec![]];
        let mut frontier: Vec<Vec<i32>> = vec![vec![]];
        for _ in 0..maxl {
            let mut next = vec![];
            for s in &frontier {
                for a in alpha {
                    let mut t = s.clone();
                    t.push(a);
                    next.push(t);
                }
            }
            out.extend(next.iter().cloned());
            frontier = next;
        }
        for n in [15usize, 16, 17, 100, 101, 1000] {
            out.push((0..n as i32).rev().collect());
            out.push(vec![7; n]);
        }
        out
    }
    fn strategy(_m: &Model<Self>) -> BoxedStrategy<Self> {
        prop_oneof![8 => proptest::collection::vec(any::<i32>(), 0..8), 8 => proptest::collection::vec(-3i32..60, 0..8), 1 => proptest::collection::vec(-3i32..60, 8..200)].boxed()
    }
    fn near_bound(&self, _m: &Model<Self>) -> bool {
        (2..=4).contains(&self.len()) || self.is_empty()
    }
}

impl Inputs for Point {
    fn systematic(_m: &Model<Self>, _tier: Tier) -> Vec<Self> {
        let g = [i16::MIN, i16::MIN + 1, -101, -100, -71, -1, 0, 1, 70, 71, 100, 101, i16::MAX];
        let mut v = vec![];
        for x in g {
            for y in g {
                v.push(Point { x, y });
            }
        }
        v
    }
    fn strategy(_m: &Model<Self>) -> BoxedStrategy<Self> {
        prop_oneof![
            (any::<i16>(), any::<i16>()).prop_map(|(x, y)| Point { x, y }),
            (-120i16..120, -120i16..120).prop_map(|(x, y)| Point { x, y })
        ]
        .boxed()
    }
    fn near_bound(&self, _m: &Model<Self>) -> bool {
        self.x.unsigned_abs() <= 1 || (self.x as i64 * self.x as i64 + self.y as i64 * self.y as i64 - 10_000).abs() <= 300
    }
}

impl Inputs for crate::types::CowF {
    fn systematic(_m: &Model<Self>, tier: Tier) -> Vec<Self> {
        use std::borrow::Cow;
        let alpha = [f32::NAN, -0.0, 0.0, 1.0, -1.5, 7.0, 50.5, f32::INFINITY, -1e30];
        let maxl = if tier == Tier::Thorough { 4 } else { 3 };
        let mut out: Vec<Self> = vec![Cow::Owned(vec![])];
        let mut frontier: Vec<Vec<f32>> = vec![vec![]];
        for _ in 0..maxl {
            let mut next = vec![];
            for s in &frontier {
                for a in alpha {
                    let mut t = s.clone();
                    t.push(a);
                    next.push(t);
                }
            }
            out.extend(next.iter().cloned().map(Cow::Owned));
            frontier = next;
        }
        // borrowed forms
        static B0: [f32; 0] = [];
        static B1: [f32; 3] = [3.0, -1.0, 2.0];
        static B2: [f32; 2] = [f32::NAN, 1.0];
        static B3: [f32; 5] = [5.0, 4.0, 3.0, 2.0, 1.0];
        out.extend([Cow::Borrowed(&B0[..]), Cow::Borrowed(&B1[..]), Cow::Borrowed(&B2[..]), Cow::Borrowed(&B3[..])]);
        out
    }
    fn strategy(_m: &Model<Self>) -> BoxedStrategy<Self> {
        let elem = prop_oneof![
            any::<u32>().prop_map(f32::from_bits),
            (-60i32..60).prop_map(|x| x as f32 / 2.0),
            Just(f32::NAN),
            Just(-0.0f32),
        ];
        proptest::collection::vec(elem, 0..8).prop_map(std::borrow::Cow::Owned).boxed()
    }
    fn near_bound(&self, _m: &Model<Self>) -> bool {
        (2..=4).contains(&self.len()) || self.is_empty() || self.iter().any(|x| x.is_nan())
    }
}

impl Inputs for Vec<u8> {
    fn systematic(_m: &Model<Self>, tier: Tier) -> Vec<Self> {
        let alpha = [0u8, 1, 7, 50, 101, 127, 128, 255];
        let maxl = if tier == Tier::Thorough { 5 } else { 4 };
        let mut out: Vec<Vec<u8>> = vec![vec![]];
        let mut frontier: Vec<Vec<u8>> = vec![vec![]];
        for _ in 0..maxl {
            let mut next = vec![];
            for s in &frontier {
                for a in alpha {
                    let mut t = s.clone();
                    t.push(a);
                    next.push(t);
                }
            }
            out.extend(next.iter().cloned());
            frontier = next;
        }
        for n in [15usize, 16, 17, 31, 32, 33, 255, 256, 257, 1000] {
            out.push((0..n).map(|i| (i * 7 + 3) as u8).rev().collect());
            out.push(vec![200; n]);
        }
        out.push(b"hello".to_vec());
        out.push("ß😀".as_bytes().to_vec());
        out
    }
    fn strategy(_m: &Model<Self>) -> BoxedStrategy<Self> {
        prop_oneof![8 => proptest::collection::vec(any::<u8>(), 0..8), 8 => proptest::collection::vec(0u8..60, 0..8), 1 => proptest::collection::vec(any::<u8>(), 8..300)].boxed()
    }
    fn near_bound(&self, _m: &Model<Self>) -> bool {
        (2..=4).contains(&self.len()) || self.is_empty()
    }
}
