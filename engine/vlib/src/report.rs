//! Counters, samples and violation records produced by the harness; serialised to
//! JSON for the driver, which owns known-finding matching, replay files and evidence.

use crate::inputs::Tier;
use serde::{Deserialize, Serialize};
use serde_json::Value;
use std::collections::BTreeMap;

#[derive(Clone, Debug)]
pub struct Ctx {
    pub prop: String,
    pub tier: Tier,
    pub seed: u64,
    /// only this declaration (replay / shrinking)
    pub only: Option<String>,
    /// replay a single case
    pub case: Option<Value>,
    pub threads: usize,
}

impl Ctx {
    pub fn quick(&self) -> bool {
        self.tier == Tier::Quick
    }
    /// number of random cases per declaration
    pub fn n_random(&self, quick: usize, thorough: usize) -> u32 {
        (if self.quick() { quick } else { thorough }) as u32
    }
}

#[derive(Clone, Debug, Serialize, Deserialize)]
pub struct Viol {
    pub prop: String,
    pub decl_id: String,
    pub type_name: String,
    pub decl: String,
    /// mechanism signature (DESIGN §7): structured facts, not concrete numbers
    pub signature: String,
    /// the failing case, lossless (replayable)
    pub case: Value,
    pub expected: String,
    pub actual: String,
    /// shrunk by: "enumeration-minimum" | "proptest" | "none"
    pub shrunk: String,
}

#[derive(Clone, Debug, Default, Serialize, Deserialize)]
pub struct DeclReport {
    pub id: String,
    pub relevant: bool,
    pub evaluations: u64,
    pub nontrivial: u64,
    pub exhaustive: bool,
    pub classes: BTreeMap<String, u64>,
    pub samples: Vec<Value>,
    pub viols: Vec<Viol>,
    /// cases whose failure matched an already recorded signature for this declaration
    pub repeats: u64,
    pub notes: Vec<String>,
}

impl DeclReport {
    pub fn new(id: &str) -> Self {
        DeclReport { id: id.to_string(), relevant: true, ..Default::default() }
    }
    pub fn irrelevant(id: &str) -> Self {
        DeclReport { id: id.to_string(), relevant: false, ..Default::default() }
    }
    pub fn class(&mut self, c: &str) {
        *self.classes.entry(c.to_string()).or_insert(0) += 1;
    }
    pub fn class_n(&mut self, c: &str, n: u64) {
        *self.classes.entry(c.to_string()).or_insert(0) += n;
    }
    pub fn sample(&mut self, class: &str, v: Value) {
        // keep at most one sample per class and 6 per declaration
        if self.samples.len() < 6 && !self.samples.iter().any(|s| s.get("class").and_then(|c| c.as_str()) == Some(class)) {
            let mut v = v;
            if let Some(o) = v.as_object_mut() {
                o.insert("class".into(), Value::String(class.to_string()));
            }
            self.samples.push(v);
        }
    }
    /// record a violation; keeps, per signature, the one with the smallest weight
    pub fn viol(&mut self, v: Viol, weight: u128, weights: &mut BTreeMap<String, u128>) {
        match weights.get(&v.signature) {
            Some(w) if *w <= weight => {
                self.repeats += 1;
            }
            Some(_) => {
                self.repeats += 1;
                weights.insert(v.signature.clone(), weight);
                if let Some(slot) = self.viols.iter_mut().find(|x| x.signature == v.signature) {
                    *slot = v;
                }
            }
            None => {
                weights.insert(v.signature.clone(), weight);
                self.viols.push(v);
            }
        }
    }
}

#[derive(Clone, Debug, Default, Serialize, Deserialize)]
pub struct RunReport {
    pub prop: String,
    pub tier: String,
    pub seed: u64,
    pub decls_total: u64,
    pub decls_relevant: u64,
    pub evaluations: u64,
    pub nontrivial: u64,
    pub exhaustive_decls: u64,
    pub classes: BTreeMap<String, u64>,
    pub samples: Vec<Value>,
    pub viols: Vec<Viol>,
    pub repeats: u64,
    pub notes: Vec<String>,
    pub assumption_failure: Option<String>,
    pub wall_s: f64,
}

impl RunReport {
    pub fn absorb(&mut self, d: DeclReport, decl_text: &str) {
        self.decls_total += 1;
        if !d.relevant {
            return;
        }
        self.decls_relevant += 1;
        self.evaluations += d.evaluations;
        self.nontrivial += d.nontrivial;
        if d.exhaustive {
            self.exhaustive_decls += 1;
        }
        for (k, v) in d.classes {
            *self.classes.entry(k).or_insert(0) += v;
        }
        for mut s in d.samples {
            // at most one sample per (case class, inner-type family), so that samples show the spread
            let class = s.get("class").and_then(|c| c.as_str()).unwrap_or("").to_string();
            let fam = family_of(decl_text);
            let dup = self.samples.iter().any(|x| x.get("class").and_then(|c| c.as_str()) == Some(class.as_str()) && x.get("family").and_then(|c| c.as_str()) == Some(fam));
            if !dup && self.samples.len() < 48 {
                if let Some(o) = s.as_object_mut() {
                    o.insert("decl".into(), Value::String(decl_text.to_string()));
                    o.insert("family".into(), Value::String(fam.to_string()));
                }
                self.samples.push(s);
            }
        }
        self.viols.extend(d.viols);
        self.repeats += d.repeats;
        for n in d.notes {
            if self.notes.len() < 50 {
                self.notes.push(format!("{}: {}", d.id, n));
            }
        }
    }
}

pub fn family_of(decl_text: &str) -> &'static str {
    let tail = decl_text.rsplit("struct").next().unwrap_or("");
    if tail.contains("(String)") {
        "string"
    } else if tail.contains("(f32)") || tail.contains("(f64)") {
        "float"
    } else if tail.contains("Vec<") || tail.contains("Point") || tail.contains("<T") {
        "other"
    } else {
        "integer"
    }
}
