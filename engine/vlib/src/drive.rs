//! Generic case driver: systematic enumeration (smallest failing case per signature
//! is kept = shrinking by enumeration order) followed by a seeded proptest run with
//! proptest's own shrinking. Also replays a single saved case.

use crate::inputs::runner;
use crate::report::*;
use crate::types::*;
use proptest::prelude::*;
use proptest::test_runner::{TestCaseError, TestError};
use serde_json::{json, Value};
use std::cell::RefCell;
use std::collections::{BTreeMap, HashSet};

pub trait Case: Clone + std::fmt::Debug {
    fn key(&self) -> Vec<u8>;
    fn to_json(&self) -> Value;
    fn from_json(v: &Value) -> Option<Self>;
    fn weight(&self) -> u128;
}

impl<I: InnerTy> Case for I {
    fn key(&self) -> Vec<u8> {
        InnerTy::key(self)
    }
    fn to_json(&self) -> Value {
        InnerTy::to_json(self)
    }
    fn from_json(v: &Value) -> Option<Self> {
        <I as InnerTy>::from_json(v)
    }
    fn weight(&self) -> u128 {
        InnerTy::weight(self)
    }
}

#[derive(Clone, Debug)]
pub struct Bytes(pub Vec<u8>);
impl Case for Bytes {
    fn key(&self) -> Vec<u8> {
        self.0.clone()
    }
    fn to_json(&self) -> Value {
        json!({"hex": hex(&self.0)})
    }
    fn from_json(v: &Value) -> Option<Self> {
        unhex(v.get("hex")?.as_str()?).map(Bytes)
    }
    fn weight(&self) -> u128 {
        ((self.0.len() as u128) << 64) | self.0.iter().map(|b| *b as u128).sum::<u128>()
    }
}

#[derive(Clone, Debug)]
pub struct Text(pub String);
impl Case for Text {
    fn key(&self) -> Vec<u8> {
        self.0.as_bytes().to_vec()
    }
    fn to_json(&self) -> Value {
        json!({"text": self.0})
    }
    fn from_json(v: &Value) -> Option<Self> {
        Some(Text(v.get("text")?.as_str()?.to_string()))
    }
    fn weight(&self) -> u128 {
        ((self.0.len() as u128) << 64) | self.0.bytes().map(|b| b as u128).sum::<u128>()
    }
}

#[derive(Clone, Debug)]
pub struct Pair<I>(pub I, pub I);
impl<I: InnerTy> Case for Pair<I> {
    fn key(&self) -> Vec<u8> {
        let mut k = InnerTy::key(&self.0);
        k.push(0xFE);
        k.extend((k.len() as u32).to_le_bytes());
        k.extend(InnerTy::key(&self.1));
        k
    }
    fn to_json(&self) -> Value {
        json!({"a": InnerTy::to_json(&self.0), "b": InnerTy::to_json(&self.1)})
    }
    fn from_json(v: &Value) -> Option<Self> {
        Some(Pair(I::from_json(v.get("a")?)?, I::from_json(v.get("b")?)?))
    }
    fn weight(&self) -> u128 {
        InnerTy::weight(&self.0).saturating_add(InnerTy::weight(&self.1))
    }
}

pub fn hex(b: &[u8]) -> String {
    b.iter().map(|x| format!("{x:02x}")).collect()
}
pub fn unhex(s: &str) -> Option<Vec<u8>> {
    if s.len() % 2 != 0 {
        return None;
    }
    (0..s.len() / 2).map(|i| u8::from_str_radix(&s[2 * i..2 * i + 2], 16).ok()).collect()
}

/// Result of evaluating one case against the oracle.
pub struct Outcome {
    pub nontrivial: bool,
    pub class: &'static str,
    pub fail: Option<Fail>,
    /// extra data shown in samples
    pub note: Option<Value>,
}
pub struct Fail {
    pub signature: String,
    pub expected: String,
    pub actual: String,
}

impl Outcome {
    pub fn ok(nontrivial: bool, class: &'static str) -> Self {
        Outcome { nontrivial, class, fail: None, note: None }
    }
    pub fn fail(nontrivial: bool, class: &'static str, signature: String, expected: String, actual: String) -> Self {
        Outcome { nontrivial, class, fail: Some(Fail { signature, expected, actual }), note: None }
    }
    pub fn with_note(mut self, v: Value) -> Self {
        self.note = Some(v);
        self
    }
}

pub struct DeclInfo<'a> {
    pub id: &'a str,
    pub type_name: &'a str,
    pub decl: &'a str,
}

impl<'a> DeclInfo<'a> {
    pub fn of<I>(vt: &'a Vt<I>) -> Self {
        DeclInfo { id: vt.id, type_name: vt.type_name, decl: vt.decl }
    }
}

/// Run `eval` over `systematic` cases and `n_random` cases drawn from `strategy`.
pub fn drive<C: Case>(
    ctx: &Ctx,
    info: &DeclInfo,
    rep: &mut DeclReport,
    systematic: Vec<C>,
    strategy: Option<BoxedStrategy<C>>,
    n_random: u32,
    eval: &dyn Fn(&C) -> Outcome,
) {
    let mk_viol = |c: &C, f: Fail, shrunk: &str| Viol {
        prop: ctx.prop.clone(),
        decl_id: info.id.to_string(),
        type_name: info.type_name.to_string(),
        decl: info.decl.to_string(),
        signature: f.signature,
        case: c.to_json(),
        expected: f.expected,
        actual: f.actual,
        shrunk: shrunk.to_string(),
    };
    let mut weights: BTreeMap<String, u128> = BTreeMap::new();

    if let Some(case) = &ctx.case {
        // replay of one saved case
        let Some(c) = C::from_json(case) else {
            rep.notes.push("replay: case does not decode for this property".into());
            return;
        };
        let o = eval(&c);
        rep.evaluations += 1;
        rep.nontrivial += o.nontrivial as u64;
        rep.class(o.class);
        rep.sample(o.class, json!({"case": c.to_json()}));
        if let Some(f) = o.fail {
            rep.viol(mk_viol(&c, f, "none"), c.weight(), &mut weights);
        }
        return;
    }

    let mut seen: HashSet<u64> = HashSet::with_capacity(systematic.len() * 2);
    for c in &systematic {
        if !seen.insert(fixed_hash(&c.key())) {
            continue;
        }
        let o = eval(c);
        rep.evaluations += 1;
        rep.nontrivial += o.nontrivial as u64;
        rep.class(o.class);
        let mut s = json!({"case": c.to_json()});
        if let Some(n) = o.note {
            s["note"] = n;
        }
        rep.sample(o.class, s);
        if let Some(f) = o.fail {
            rep.viol(mk_viol(c, f, "enumeration-minimum"), c.weight(), &mut weights);
        }
    }

    let Some(strategy) = strategy else { return };
    if n_random == 0 {
        return;
    }
    let mut r = runner(ctx.seed, &format!("{}/{}", ctx.prop, info.id), n_random);
    // counters live in RefCells because the closure is re-run during shrinking: stop counting at first failure
    let failed = RefCell::new(false);
    let counts = RefCell::new((0u64, 0u64, BTreeMap::<&'static str, u64>::new()));
    let seen = RefCell::new(seen);
    let sample_slot: RefCell<Vec<(&'static str, Value)>> = RefCell::new(vec![]);
    let res = r.run(&strategy, |c| {
        let o = eval(&c);
        if !*failed.borrow() {
            let fresh = seen.borrow_mut().insert(fixed_hash(&c.key()));
            let mut k = counts.borrow_mut();
            k.0 += 1;
            if fresh && o.nontrivial {
                k.1 += 1;
            }
            *k.2.entry(o.class).or_insert(0) += 1;
            if sample_slot.borrow().len() < 3 {
                sample_slot.borrow_mut().push((o.class, json!({"case": c.to_json(), "source": "random"})));
            }
        }
        match o.fail {
            Some(f) => {
                *failed.borrow_mut() = true;
                Err(TestCaseError::fail(f.signature))
            }
            None => Ok(()),
        }
    });
    let k = counts.into_inner();
    rep.evaluations += k.0;
    rep.nontrivial += k.1;
    for (c, n) in k.2 {
        rep.class_n(c, n);
    }
    for (class, s) in sample_slot.into_inner() {
        rep.sample(&format!("{class}/random"), s);
    }
    if let Err(TestError::Fail(_, c)) = res {
        // re-evaluate the shrunk case to get its own signature / expected / actual
        let o = eval(&c);
        if let Some(f) = o.fail {
            rep.viol(mk_viol(&c, f, "proptest"), c.weight(), &mut weights);
        }
    } else if let Err(TestError::Abort(why)) = res {
        rep.notes.push(format!("proptest aborted: {why}"));
    }
}

thread_local! {
    /// >0 while a panic is an expected observation (inside `no_panic`)
    pub static QUIET: std::cell::Cell<u32> = const { std::cell::Cell::new(0) };
}

/// panic hook: silent inside `no_panic`, loud otherwise (a harness bug must be visible)
pub fn install_hook() {
    let default = std::panic::take_hook();
    std::panic::set_hook(Box::new(move |info| {
        if QUIET.with(|q| q.get()) == 0 {
            default(info);
        }
    }));
}

/// run a closure, turning a panic into `Err(message)`
pub fn no_panic<R>(f: impl FnOnce() -> R) -> Result<R, String> {
    QUIET.with(|q| q.set(q.get() + 1));
    let r = std::panic::catch_unwind(std::panic::AssertUnwindSafe(f));
    QUIET.with(|q| q.set(q.get() - 1));
    match r {
        Ok(r) => Ok(r),
        Err(e) => {
            let msg = if let Some(s) = e.downcast_ref::<&str>() {
                s.to_string()
            } else if let Some(s) = e.downcast_ref::<String>() {
                s.clone()
            } else {
                "<non-string panic>".to_string()
            };
            Err(msg)
        }
    }
}
