//! Library of *pure, total* user functions used as custom sanitizers / predicates /
//! validators in generated declarations. The macro under test sees them as paths or
//! wrapped in closures; the reference model calls the very same functions through a
//! plain `fn` pointer.
//!
//! Naming: `s_*` sanitizers, `p_*` predicates, `v_*` custom validators,
//! `c_*` `const fn` twins of the above (for `const_fn` declarations).

use crate::types::Point;

/// User-defined error type for `validate(with = .., error = CustomErr)`.
#[derive(Debug, Clone, PartialEq, Eq)]
pub struct CustomErr {
    pub code: i64,
}
impl std::fmt::Display for CustomErr {
    fn fmt(&self, f: &mut std::fmt::Formatter<'_>) -> std::fmt::Result {
        write!(f, "custom error {}", self.code)
    }
}
impl std::error::Error for CustomErr {}

macro_rules! int_fns {
    ($m:ident, $t:ty, $lo:expr, $hi:expr) => {
        pub mod $m {
            use super::CustomErr;
            /// idempotent
            pub fn s_clamp(x: $t) -> $t {
                x.clamp($lo, $hi)
            }
            pub const fn c_s_clamp(x: $t) -> $t {
                if x < $lo {
                    $lo
                } else if x > $hi {
                    $hi
                } else {
                    x
                }
            }
            /// not idempotent
            pub fn s_wadd1(x: $t) -> $t {
                x.wrapping_add(1)
            }
            pub const fn c_s_wadd1(x: $t) -> $t {
                x.wrapping_add(1)
            }
            /// not idempotent
            pub fn s_half(x: $t) -> $t {
                x / 2
            }
            /// idempotent: clear the lowest bit
            pub fn s_even(x: $t) -> $t {
                x & !1
            }
            pub fn p_even(x: &$t) -> bool {
                *x % 2 == 0
            }
            pub const fn c_p_even(x: &$t) -> bool {
                *x % 2 == 0
            }
            pub fn p_not7(x: &$t) -> bool {
                *x != 7
            }
            pub fn v_small(x: &$t) -> Result<(), CustomErr> {
                if *x > 10 {
                    Err(CustomErr { code: (*x as i128 % 1_000_003) as i64 })
                } else {
                    Ok(())
                }
            }
            pub const fn c_v_small(x: &$t) -> Result<(), CustomErr> {
                if *x > 10 {
                    Err(CustomErr { code: (*x as i128 % 1_000_003) as i64 })
                } else {
                    Ok(())
                }
            }
            /// model-side twin of `v_small` returning the payload only
            pub fn m_v_small(x: &$t) -> Result<(), i64> {
                v_small(x).map_err(|e| e.code)
            }
            /// `v_small` as a predicate (C02: custom rule mixed with standard ones)
            pub fn p_v_small(x: &$t) -> bool {
                v_small(x).is_ok()
            }
        }
    };
}
int_fns!(fu8, u8, 2, 100);
int_fns!(fu16, u16, 2, 100);
int_fns!(fu32, u32, 2, 100);
int_fns!(fu64, u64, 2, 100);
int_fns!(fu128, u128, 2, 100);
int_fns!(fusize, usize, 2, 100);
int_fns!(fi8, i8, -5, 100);
int_fns!(fi16, i16, -5, 100);
int_fns!(fi32, i32, -5, 100);
int_fns!(fi64, i64, -5, 100);
int_fns!(fi128, i128, -5, 100);
int_fns!(fisize, isize, -5, 100);

macro_rules! float_fns {
    ($m:ident, $t:ty) => {
        pub mod $m {
            use super::CustomErr;
            /// idempotent (NaN stays NaN)
            pub fn s_clamp(x: $t) -> $t {
                x.clamp(-5.0, 100.0)
            }
            pub const fn c_s_clamp(x: $t) -> $t {
                if x < -5.0 {
                    -5.0
                } else if x > 100.0 {
                    100.0
                } else {
                    x
                }
            }
            /// idempotent
            pub fn s_nan0(x: $t) -> $t {
                if x.is_nan() {
                    0.0
                } else {
                    x
                }
            }
            /// not idempotent
            pub fn s_neg(x: $t) -> $t {
                -x
            }
            /// not idempotent; maps the finite inputs +0.0 / -0.0 to infinities
            pub fn s_recip(x: $t) -> $t {
                1.0 / x
            }
            /// not idempotent; maps large finite inputs to infinities
            pub fn s_quad(x: $t) -> $t {
                x * 4.0
            }
            /// idempotent; maps finite inputs beyond 1e30 to infinities
            pub fn s_big2inf(x: $t) -> $t {
                if x > 1e30 {
                    <$t>::INFINITY
                } else if x < -1e30 {
                    <$t>::NEG_INFINITY
                } else {
                    x
                }
            }
            /// not idempotent
            pub fn s_add1(x: $t) -> $t {
                x + 1.0
            }
            /// idempotent
            pub fn s_abs(x: $t) -> $t {
                x.abs()
            }
            pub fn p_not50(x: &$t) -> bool {
                *x != 50.0
            }
            pub const fn c_p_not50(x: &$t) -> bool {
                *x != 50.0
            }
            pub fn p_integral(x: &$t) -> bool {
                x.fract() == 0.0
            }
            pub fn v_small(x: &$t) -> Result<(), CustomErr> {
                if *x < 10.0 {
                    Ok(())
                } else {
                    Err(CustomErr { code: (x.to_bits() as u64 % 1_000_003) as i64 })
                }
            }
            pub fn m_v_small(x: &$t) -> Result<(), i64> {
                v_small(x).map_err(|e| e.code)
            }
            pub fn p_v_small(x: &$t) -> bool {
                v_small(x).is_ok()
            }
        }
    };
}
float_fns!(ff32, f32);
float_fns!(ff64, f64);

pub mod fstr {
    use super::CustomErr;
    /// idempotent: keep the first five chars
    pub fn s_trunc5(s: String) -> String {
        s.chars().take(5).collect()
    }
    /// not idempotent
    pub fn s_appendx(mut s: String) -> String {
        s.push('X');
        s
    }
    /// not idempotent, interacts with trim
    pub fn s_padsp(s: String) -> String {
        format!(" {s} ")
    }
    /// idempotent
    pub fn s_repl(s: String) -> String {
        s.replace('a', "b")
    }
    /// idempotent; produces edge whitespace that a later `trim` has to remove
    pub fn s_at2sp(s: String) -> String {
        s.replace('@', " ")
    }
    /// idempotent; produces an upper-case letter that a later `lowercase` has to map
    pub fn s_bang2z(s: String) -> String {
        s.replace('!', "Z")
    }
    /// not idempotent, interacts with lowercase
    pub fn s_prepz(s: String) -> String {
        format!("Z{s}")
    }
    pub fn p_has_at(s: &str) -> bool {
        s.contains('@')
    }
    pub fn p_ascii(s: &str) -> bool {
        s.is_ascii()
    }
    pub fn p_no_a(s: &str) -> bool {
        !s.contains('a')
    }
    pub fn v_nobang(s: &str) -> Result<(), CustomErr> {
        if s.contains('!') {
            Err(CustomErr { code: s.len() as i64 })
        } else {
            Ok(())
        }
    }
    pub fn m_v_nobang(s: &String) -> Result<(), i64> {
        v_nobang(s).map_err(|e| e.code)
    }
    // model-side adaptors (model predicates take &I = &String)
    pub fn m_p_has_at(s: &String) -> bool {
        p_has_at(s)
    }
    pub fn m_p_ascii(s: &String) -> bool {
        p_ascii(s)
    }
    pub fn m_p_no_a(s: &String) -> bool {
        p_no_a(s)
    }
    pub fn m_p_v_nobang(s: &String) -> bool {
        v_nobang(s).is_ok()
    }
}

pub mod fvec {
    use super::CustomErr;
    /// idempotent
    pub fn s_sort(mut v: Vec<i32>) -> Vec<i32> {
        v.sort();
        v
    }
    /// idempotent
    pub fn s_dedup(mut v: Vec<i32>) -> Vec<i32> {
        v.sort();
        v.dedup();
        v
    }
    /// not idempotent
    pub fn s_push0(mut v: Vec<i32>) -> Vec<i32> {
        v.push(0);
        v
    }
    /// idempotent
    pub fn s_take3(mut v: Vec<i32>) -> Vec<i32> {
        v.truncate(3);
        v
    }
    pub fn p_nonempty(v: &Vec<i32>) -> bool {
        !v.is_empty()
    }
    pub fn p_short(v: &Vec<i32>) -> bool {
        v.len() <= 3
    }
    pub fn v_sum(v: &Vec<i32>) -> Result<(), CustomErr> {
        let s: i64 = v.iter().map(|x| *x as i64).sum();
        if s > 100 {
            Err(CustomErr { code: s })
        } else {
            Ok(())
        }
    }
    pub fn m_v_sum(v: &Vec<i32>) -> Result<(), i64> {
        v_sum(v).map_err(|e| e.code)
    }
    pub fn p_v_sum(v: &Vec<i32>) -> bool {
        v_sum(v).is_ok()
    }
    // generic twins, used by `struct W<T: Ord + Clone>(Vec<T>)`
    pub fn g_s_sort<T: Ord>(mut v: Vec<T>) -> Vec<T> {
        v.sort();
        v
    }
    pub fn g_s_dedup<T: Ord>(mut v: Vec<T>) -> Vec<T> {
        v.sort();
        v.dedup();
        v
    }
    pub fn g_s_take3<T>(mut v: Vec<T>) -> Vec<T> {
        v.truncate(3);
        v
    }
    pub fn g_p_nonempty<T>(v: &Vec<T>) -> bool {
        !v.is_empty()
    }
    pub fn g_p_short<T>(v: &Vec<T>) -> bool {
        v.len() <= 3
    }
}

pub mod fpoint {
    use super::{CustomErr, Point};
    /// idempotent
    pub fn s_abs(p: Point) -> Point {
        Point { x: p.x.saturating_abs(), y: p.y.saturating_abs() }
    }
    pub const fn c_s_abs(p: Point) -> Point {
        Point { x: p.x.saturating_abs(), y: p.y.saturating_abs() }
    }
    /// not idempotent
    pub fn s_swap(p: Point) -> Point {
        Point { x: p.y, y: p.x.wrapping_add(1) }
    }
    pub fn p_xpos(p: &Point) -> bool {
        p.x > 0
    }
    pub const fn c_p_xpos(p: &Point) -> bool {
        p.x > 0
    }
    pub fn p_diag(p: &Point) -> bool {
        p.x != p.y
    }
    pub fn v_far(p: &Point) -> Result<(), CustomErr> {
        let d = p.x as i64 * p.x as i64 + p.y as i64 * p.y as i64;
        if d > 10_000 {
            Err(CustomErr { code: d })
        } else {
            Ok(())
        }
    }
    pub fn m_v_far(p: &Point) -> Result<(), i64> {
        v_far(p).map_err(|e| e.code)
    }
    // generic twins used by `struct W<T>(T)` instantiated at Point
    pub trait HasX {
        fn x_(&self) -> i16;
    }
    impl HasX for Point {
        fn x_(&self) -> i16 {
            self.x
        }
    }
    /// a second instantiation for generic declarations: its `Default` satisfies `g_p_xpos`, Point's does not
    #[derive(Clone, Copy, Debug, PartialEq, Eq, PartialOrd, Ord, Hash)]
    pub struct PosPoint(pub Point);
    impl Default for PosPoint {
        fn default() -> Self {
            PosPoint(Point { x: 1, y: 1 })
        }
    }
    impl HasX for PosPoint {
        fn x_(&self) -> i16 {
            self.0.x
        }
    }
    pub fn g_p_xpos<T: HasX>(p: &T) -> bool {
        p.x_() > 0
    }
}

/// custom functions for `Cow<'a, [f32]>` (lifetime-generic, so that declarations `W<'a>(Cow<'a, [f32]>)` can use them)
pub mod fcow {
    use super::CustomErr;
    use std::borrow::Cow;
    /// idempotent
    pub fn s_abs_all<'a>(v: Cow<'a, [f32]>) -> Cow<'a, [f32]> {
        if v.iter().all(|x| !x.is_sign_negative()) {
            v
        } else {
            Cow::Owned(v.iter().map(|x| x.abs()).collect())
        }
    }
    /// idempotent
    pub fn s_take3<'a>(v: Cow<'a, [f32]>) -> Cow<'a, [f32]> {
        match v {
            Cow::Borrowed(b) => Cow::Borrowed(&b[..b.len().min(3)]),
            Cow::Owned(mut o) => {
                o.truncate(3);
                Cow::Owned(o)
            }
        }
    }
    /// not idempotent
    pub fn s_push0<'a>(v: Cow<'a, [f32]>) -> Cow<'a, [f32]> {
        let mut o = v.into_owned();
        o.push(0.0);
        Cow::Owned(o)
    }
    pub fn p_nonempty(v: &Cow<'_, [f32]>) -> bool {
        !v.is_empty()
    }
    pub fn p_short(v: &Cow<'_, [f32]>) -> bool {
        v.len() <= 3
    }
    pub fn p_no_nan(v: &Cow<'_, [f32]>) -> bool {
        v.iter().all(|x| !x.is_nan())
    }
    pub fn v_sum(v: &Cow<'_, [f32]>) -> Result<(), CustomErr> {
        let s: f64 = v.iter().map(|x| *x as f64).sum();
        if s > 100.0 {
            Err(CustomErr { code: v.len() as i64 })
        } else {
            Ok(())
        }
    }
    pub fn m_v_sum(v: &Cow<'_, [f32]>) -> Result<(), i64> {
        v_sum(v).map_err(|e| e.code)
    }
}

/// custom functions for `Vec<u8>`
pub mod fbytes {
    use super::CustomErr;
    /// idempotent
    pub fn s_sort(mut v: Vec<u8>) -> Vec<u8> {
        v.sort();
        v
    }
    /// idempotent
    pub fn s_take3(mut v: Vec<u8>) -> Vec<u8> {
        v.truncate(3);
        v
    }
    /// not idempotent
    pub fn s_push0(mut v: Vec<u8>) -> Vec<u8> {
        v.push(0);
        v
    }
    pub fn p_nonempty(v: &Vec<u8>) -> bool {
        !v.is_empty()
    }
    pub fn p_short(v: &Vec<u8>) -> bool {
        v.len() <= 3
    }
    pub fn p_utf8(v: &Vec<u8>) -> bool {
        std::str::from_utf8(v).is_ok()
    }
    pub fn v_sum(v: &Vec<u8>) -> Result<(), CustomErr> {
        let s: i64 = v.iter().map(|x| *x as i64).sum();
        if s > 300 {
            Err(CustomErr { code: s })
        } else {
            Ok(())
        }
    }
    pub fn m_v_sum(v: &Vec<u8>) -> Result<(), i64> {
        v_sum(v).map_err(|e| e.code)
    }
}
