//! Entry point of a generated corpus binary:
//! `corpus --prop C01 --tier quick --seed 1 --out report.json [--only d0001 --case '<json>']`

use crate::inputs::Tier;
use crate::props;
use crate::report::*;
use crate::types::*;
use crate::with_entry;
use std::sync::atomic::{AtomicUsize, Ordering};
use std::sync::Mutex;

pub fn check_entry(e: &'static Entry, ctx: &Ctx) -> DeclReport {
    match ctx.prop.as_str() {
        "C01" => with_entry!(e, vt => props::c01::check(vt, ctx)),
        "C02" => with_entry!(e, vt => props::c02::check(vt, ctx)),
        "C03" => with_entry!(e, vt => props::c03::check(vt, ctx)),
        "C04" => with_entry!(e, vt => props::c04::check(vt, ctx)),
        "C06" => with_entry!(e, vt => props::c06::check(vt, ctx)),
        "C07" => with_entry!(e, vt => props::c07::check(vt, ctx)),
        "C09" => with_entry!(e, vt => props::c09::check(vt, ctx)),
        "C10" => with_entry!(e, vt => props::c10::check(vt, ctx)),
        "C11" => with_entry!(e, vt => props::c11::check(vt, ctx)),
        "C13" => with_entry!(e, vt => props::c13::check(vt, ctx)),
        "C16" => with_entry!(e, vt => props::c16::check(vt, ctx)),
        "C12" => match e {
            Entry::F32(vt) => props::c12::check_float(vt, ctx),
            Entry::F64(vt) => props::c12::check_float(vt, ctx),
            other => DeclReport::irrelevant(other.id()),
        },
        "C14" => match e {
            Entry::U8(vt) => props::c09::check_c14(vt, ctx),
            Entry::U16(vt) => props::c09::check_c14(vt, ctx),
            Entry::U32(vt) => props::c09::check_c14(vt, ctx),
            Entry::U64(vt) => props::c09::check_c14(vt, ctx),
            Entry::U128(vt) => props::c09::check_c14(vt, ctx),
            Entry::Usize(vt) => props::c09::check_c14(vt, ctx),
            Entry::I8(vt) => props::c09::check_c14(vt, ctx),
            Entry::I16(vt) => props::c09::check_c14(vt, ctx),
            Entry::I32(vt) => props::c09::check_c14(vt, ctx),
            Entry::I64(vt) => props::c09::check_c14(vt, ctx),
            Entry::I128(vt) => props::c09::check_c14(vt, ctx),
            Entry::Isize(vt) => props::c09::check_c14(vt, ctx),
            other => DeclReport::irrelevant(other.id()),
        },
        p => panic!("unknown property {p}"),
    }
}

fn decl_text(e: &Entry) -> &'static str {
    with_entry!(e, vt => vt.decl)
}

pub fn main(reg: &'static [Entry]) {
    let args: Vec<String> = std::env::args().collect();
    let get = |k: &str| args.iter().position(|a| a == k).and_then(|i| args.get(i + 1)).cloned();
    let prop = get("--prop").expect("--prop");
    let tier = match get("--tier").as_deref() {
        Some("thorough") => Tier::Thorough,
        _ => Tier::Quick,
    };
    let seed: u64 = get("--seed").and_then(|s| s.parse().ok()).unwrap_or(1);
    let out = get("--out").expect("--out");
    let threads: usize = get("--threads").and_then(|s| s.parse().ok()).unwrap_or(16);
    let only = get("--only");
    let case = get("--case").map(|s| serde_json::from_str(&s).expect("--case json"));
    let ctx = Ctx { prop: prop.clone(), tier, seed, only: only.clone(), case, threads };

    // panics are expected observations (catch_unwind); keep stderr quiet
    crate::drive::install_hook();
    // whole-process watchdog: a hang (e.g. a generator loop that never ends) becomes exit 3, which the
    // driver reports as INCONCLUSIVE (exit 2) — a time budget is never turned into a violation
    let limit: u64 = get("--watchdog-secs").and_then(|s| s.parse().ok()).unwrap_or(if tier == Tier::Thorough { 6 * 3600 } else { 1200 });
    std::thread::spawn(move || {
        std::thread::sleep(std::time::Duration::from_secs(limit));
        eprintln!("WATCHDOG: harness still running after {limit} s — giving up (inconclusive)");
        std::process::exit(3);
    });
    let t0 = std::time::Instant::now();
    let mut run = RunReport { prop: prop.clone(), tier: format!("{tier:?}").to_lowercase(), seed, ..Default::default() };

    if let Err(e) = crate::model::selfcheck() {
        run.assumption_failure = Some(e);
        std::fs::write(&out, serde_json::to_vec_pretty(&run).unwrap()).unwrap();
        std::process::exit(2);
    }

    let todo: Vec<&'static Entry> = reg.iter().filter(|e| only.as_deref().map_or(true, |o| o == e.id())).collect();
    let next = AtomicUsize::new(0);
    let results: Mutex<Vec<(usize, DeclReport)>> = Mutex::new(vec![]);
    std::thread::scope(|s| {
        for _ in 0..threads.min(todo.len().max(1)) {
            s.spawn(|| loop {
                let i = next.fetch_add(1, Ordering::Relaxed);
                if i >= todo.len() {
                    break;
                }
                let r = check_entry(todo[i], &ctx);
                results.lock().unwrap().push((i, r));
            });
        }
    });
    let mut results = results.into_inner().unwrap();
    results.sort_by_key(|(i, _)| *i);
    for (i, r) in results {
        run.absorb(r, decl_text(todo[i]));
    }
    run.wall_s = t0.elapsed().as_secs_f64();
    std::fs::write(&out, serde_json::to_vec_pretty(&run).unwrap()).unwrap();
}
