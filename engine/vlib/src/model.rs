//! Reference semantics, written from the README tables and GLOSSARY, not from the
//! macro: `sanitize` folds the declared sanitizers left to right, `validate` returns
//! the first declared validator the value violates.

use crate::types::*;
use std::cmp::Ordering;

/// Unicode `White_Space` (UCD 15/16): 25 code points. Hard-coded so that `trim`
/// in the model does not depend on the same std function the macro calls; checked
/// against `char::is_whitespace` at start-up (`selfcheck`).
pub const WHITE_SPACE: [u32; 25] = [
    0x09, 0x0A, 0x0B, 0x0C, 0x0D, 0x20, 0x85, 0xA0, 0x1680, 0x2000, 0x2001, 0x2002, 0x2003, 0x2004, 0x2005,
    0x2006, 0x2007, 0x2008, 0x2009, 0x200A, 0x2028, 0x2029, 0x202F, 0x205F, 0x3000,
];

pub fn is_ws(c: char) -> bool {
    WHITE_SPACE.contains(&(c as u32))
}

pub fn model_trim(s: &str) -> &str {
    let mut start = 0;
    let mut end = s.len();
    for (i, c) in s.char_indices() {
        if is_ws(c) {
            start = i + c.len_utf8();
        } else {
            break;
        }
    }
    if start >= end {
        return "";
    }
    for (i, c) in s.char_indices().rev() {
        if i < start {
            break;
        }
        if is_ws(c) {
            end = i;
        } else {
            break;
        }
    }
    &s[start..end]
}

/// number of Unicode scalar values = number of non-continuation UTF-8 bytes
pub fn char_len(s: &str) -> usize {
    s.as_bytes().iter().filter(|b| (**b & 0xC0) != 0x80).count()
}

pub fn sanitize<I: InnerTy>(m: &Model<I>, raw: I) -> I {
    let mut v = raw;
    for s in m.sans {
        v = match s {
            San::Trim => I::from_string_(model_trim(v.as_str_()).to_string()),
            San::Lower => I::from_string_(v.as_str_().to_lowercase()),
            San::Upper => I::from_string_(v.as_str_().to_uppercase()),
            San::With { f, .. } => f(v),
        };
    }
    v
}

thread_local! {
    static REGEXES: std::cell::RefCell<std::collections::HashMap<&'static str, regex::Regex>> = Default::default();
}

fn regex_match(pat: &'static str, s: &str) -> bool {
    REGEXES.with(|r| {
        let mut r = r.borrow_mut();
        let re = r.entry(pat).or_insert_with(|| regex::Regex::new(pat).expect("model regex must compile"));
        re.is_match(s)
    })
}

/// does `v` satisfy validator `val`?
pub fn satisfies<I: InnerTy>(val: &Val<I>, v: &I) -> bool {
    match val {
        // a float bound "rejects when the value is on the wrong side" (DESIGN §4): NaN is
        // unordered, hence not rejected by a bound; `finite` rejects it.
        Val::Greater(b) => !matches!(v.pcmp(b), Some(Ordering::Less) | Some(Ordering::Equal)),
        Val::GreaterEq(b) => !matches!(v.pcmp(b), Some(Ordering::Less)),
        Val::Less(b) => !matches!(v.pcmp(b), Some(Ordering::Greater) | Some(Ordering::Equal)),
        Val::LessEq(b) => !matches!(v.pcmp(b), Some(Ordering::Greater)),
        Val::Finite => v.is_finite_(),
        Val::Predicate { f, .. } => f(v),
        Val::LenCharMin(n) => char_len(v.as_str_()) >= *n,
        Val::LenCharMax(n) => char_len(v.as_str_()) <= *n,
        Val::NotEmpty => v.as_str_().len() != 0,
        Val::Regex(p) => regex_match(p, v.as_str_()),
    }
}

pub fn validate<I: InnerTy>(m: &Model<I>, v: &I) -> Result<(), ErrR> {
    match &m.vals {
        Vals::None => Ok(()),
        Vals::Std(vals) => {
            for (i, val) in vals.iter().enumerate() {
                if !satisfies(val, v) {
                    return Err(ErrR::Ix(i));
                }
            }
            Ok(())
        }
        Vals::Custom { f, .. } => f(v).map_err(ErrR::Custom),
    }
}

/// indices of all violated standard validators
pub fn violated<I: InnerTy>(m: &Model<I>, v: &I) -> Vec<usize> {
    match &m.vals {
        Vals::Std(vals) => vals.iter().enumerate().filter(|(_, val)| !satisfies(val, v)).map(|(i, _)| i).collect(),
        Vals::Custom { f, .. } => {
            if f(v).is_err() {
                vec![0]
            } else {
                vec![]
            }
        }
        Vals::None => vec![],
    }
}

/// the reference constructor
pub fn construct<I: InnerTy>(m: &Model<I>, raw: I) -> Result<I, ErrR> {
    let s = sanitize(m, raw);
    validate(m, &s)?;
    Ok(s)
}

/// numeric bounds declared by the model (all four kinds)
pub fn bounds<I: InnerTy>(m: &Model<I>) -> Vec<I> {
    let mut out = vec![];
    for v in m.std_vals() {
        match v {
            Val::Greater(b) | Val::GreaterEq(b) | Val::Less(b) | Val::LessEq(b) => out.push(b.clone()),
            _ => {}
        }
    }
    out
}

pub fn len_bounds<I: InnerTy>(m: &Model<I>) -> Vec<usize> {
    let mut out = vec![];
    for v in m.std_vals() {
        match v {
            Val::LenCharMin(n) | Val::LenCharMax(n) => out.push(*n),
            _ => {}
        }
    }
    out
}

/// Start-up self check of the model's own assumptions; a failure here is an
/// *assumption failure* (exit 2), never a violation.
pub fn selfcheck() -> Result<(), String> {
    // White_Space table vs std
    for cp in 0..=0x10FFFFu32 {
        if let Some(c) = char::from_u32(cp) {
            if c.is_whitespace() != is_ws(c) {
                return Err(format!("White_Space table disagrees with std at U+{cp:04X}"));
            }
        }
    }
    // README examples
    let m: Model<String> = Model { sans: &[San::Trim, San::Lower], vals: Vals::Std(&[Val::LenCharMin(3), Val::LenCharMax(30)]), default_raw: None };
    if construct(&m, "   FooBar  ".to_string()) != Ok("foobar".to_string()) {
        return Err("README Username example: sanitize".into());
    }
    if construct(&m, "  x ".to_string()) != Err(ErrR::Ix(0)) {
        return Err("README Username example: too short".into());
    }
    if construct(&m, "a".repeat(31)) != Err(ErrR::Ix(1)) {
        return Err("README Username example: too long".into());
    }
    let a: Model<i32> = Model { sans: &[], vals: Vals::Std(&[Val::GreaterEq(18), Val::LessEq(99)]), default_raw: None };
    if construct(&a, 17) != Err(ErrR::Ix(0)) || construct(&a, 18) != Ok(18) || construct(&a, 100) != Err(ErrR::Ix(1)) {
        return Err("README Age example".into());
    }
    let f: Model<f64> = Model { sans: &[], vals: Vals::Std(&[Val::Finite]), default_raw: None };
    if construct(&f, f64::NAN).is_ok() || construct(&f, f64::INFINITY).is_ok() || construct(&f, 1.5).is_err() {
        return Err("README finite example".into());
    }
    if model_trim("\u{2003}a b\u{85}\n") != "a b" || model_trim(" \t ") != "" || model_trim("") != "" {
        return Err("model_trim".into());
    }
    if char_len("aß😀") != 3 {
        return Err("char_len".into());
    }
    Ok(())
}
