pub mod docs;
pub mod drive;
pub mod fns;
pub mod fuzz;
pub mod glue;
pub mod inputs;
pub mod model;
pub mod props;
pub mod report;
pub mod run;
pub mod types;

pub use types::*;
