//! Helpers and macros used by the glue emitted next to each generated declaration.
//!
//! The macros are deliberately unhygienic about *items*: they refer to `TT` (the
//! newtype), `II` (its inner type), `PE` (its parse-error type), `mk`, `err`,
//! `err_from_ix` and `RefNt`, all defined in the generated module.

use crate::types::*;
use serde::de::DeserializeOwned;
use serde::{Deserialize, Serialize};
use std::collections::BTreeMap;

#[derive(Serialize, Deserialize)]
pub struct Holder<T> {
    pub a: T,
    pub b: u8,
}

/// all values of a map document, duplicates of a key included (a `BTreeMap` would keep only the last
/// value of a repeated key, hiding the others from the oracle)
pub struct MapVals<T>(pub Vec<T>);

impl<'de, T: Deserialize<'de>> Deserialize<'de> for MapVals<T> {
    fn deserialize<D: serde::Deserializer<'de>>(d: D) -> Result<Self, D::Error> {
        struct V<T>(std::marker::PhantomData<T>);
        impl<'de, T: Deserialize<'de>> serde::de::Visitor<'de> for V<T> {
            type Value = MapVals<T>;
            fn expecting(&self, f: &mut std::fmt::Formatter) -> std::fmt::Result {
                write!(f, "a map with string keys")
            }
            fn visit_map<A: serde::de::MapAccess<'de>>(self, mut map: A) -> Result<Self::Value, A::Error> {
                let mut out = vec![];
                while let Some((_k, v)) = map.next_entry::<String, T>()? {
                    out.push(v);
                }
                Ok(MapVals(out))
            }
        }
        d.deserialize_map(V(std::marker::PhantomData))
    }
}

pub fn dec<X: DeserializeOwned>(f: Fmt, b: &[u8]) -> Result<X, String> {
    match f {
        Fmt::Json => serde_json::from_slice::<X>(b).map_err(|e| e.to_string()),
        Fmt::JsonReader => serde_json::from_reader::<_, X>(b).map_err(|e| e.to_string()),
        Fmt::JsonValue => serde_json::from_slice::<serde_json::Value>(b).and_then(serde_json::from_value::<X>).map_err(|e| e.to_string()),
        Fmt::Ron | Fmt::RonNamed => ron::de::from_bytes::<X>(b).map_err(|e| e.to_string()),
        Fmt::MsgPack => rmp_serde::from_slice::<X>(b).map_err(|e| e.to_string()),
    }
}

pub fn enc<X: Serialize>(f: Fmt, v: &X) -> Result<Vec<u8>, String> {
    match f {
        Fmt::Json | Fmt::JsonReader | Fmt::JsonValue => serde_json::to_vec(v).map_err(|e| e.to_string()),
        Fmt::Ron => ron::ser::to_string(v).map(|s| s.into_bytes()).map_err(|e| e.to_string()),
        Fmt::RonNamed => ron::ser::to_string_pretty(v, ron::ser::PrettyConfig::new().struct_names(true)).map(|s| s.into_bytes()).map_err(|e| e.to_string()),
        Fmt::MsgPack => rmp_serde::to_vec(v).map_err(|e| e.to_string()),
    }
}

/// decode `b` as `T` in position `p`, returning the carried inner values
pub fn de_any<T: DeserializeOwned, I>(f: Fmt, p: Pos, b: &[u8], into: fn(T) -> I) -> Result<Vec<I>, String> {
    Ok(match p {
        Pos::Top => vec![into(dec::<T>(f, b)?)],
        Pos::Vec => dec::<Vec<T>>(f, b)?.into_iter().map(into).collect(),
        Pos::Opt => dec::<Option<T>>(f, b)?.into_iter().map(into).collect(),
        Pos::Field => vec![into(dec::<Holder<T>>(f, b)?.a)],
        Pos::MapVal => dec::<MapVals<T>>(f, b)?.0.into_iter().map(into).collect(),
        Pos::MapKey => return Err("use de_key".into()),
    })
}

pub fn de_key<T: DeserializeOwned + Ord, I>(f: Fmt, b: &[u8], into: fn(T) -> I) -> Result<Vec<I>, String> {
    Ok(dec::<BTreeMap<T, u8>>(f, b)?.into_keys().map(into).collect())
}

/// the value formatted under a fixed list of format specs (plain, width/fill/alignment, precision, sign,
/// zero padding): `Display` must be transparent under every one of them
pub fn fmt_all<T: std::fmt::Display>(t: &T) -> Vec<String> {
    vec![
        format!("{}", t),
        format!("{:>9}", t),
        format!("{:*^11}", t),
        format!("{:<7}|", t),
        format!("{:.2}", t),
        format!("{:+}", t),
        format!("{:08}", t),
        format!("{:^+12.3}", t),
        format!("{:w$.p$}", t, w = 10, p = 1),
    ]
}

/// `Deserialize::deserialize_in_place` on an existing value: returns whether it succeeded
pub fn de_in_place<'a, T: Deserialize<'a>>(f: Fmt, b: &'a [u8], place: &mut T) -> bool {
    match f {
        Fmt::Json => {
            let mut d = serde_json::Deserializer::from_slice(b);
            T::deserialize_in_place(&mut d, place).is_ok() && d.end().is_ok()
        }
        Fmt::JsonReader => {
            let mut d = serde_json::Deserializer::from_reader(b);
            T::deserialize_in_place(&mut d, place).is_ok() && d.end().is_ok()
        }
        Fmt::JsonValue => match serde_json::from_slice::<serde_json::Value>(b) {
            Ok(v) => T::deserialize_in_place(v, place).is_ok(),
            Err(_) => false,
        },
        Fmt::Ron | Fmt::RonNamed => match ron::de::Deserializer::from_bytes(b) {
            Ok(mut d) => T::deserialize_in_place(&mut d, place).is_ok() && d.end().is_ok(),
            Err(_) => false,
        },
        Fmt::MsgPack => {
            let mut d = rmp_serde::Deserializer::new(b);
            T::deserialize_in_place(&mut d, place).is_ok()
        }
    }
}

/// Deserialize through serde's in-memory value deserializers (`serde::de::value`), which forward every
/// `deserialize_*` hint - `deserialize_newtype_struct` included - to `deserialize_any`:
/// kind 0 = the primitive's own deserializer, 1 = a one-element sequence, 2 = a one-entry map,
/// 3 = a two-element sequence. `None` = no such kind.
pub fn de_value<'de, T, I>(raw: I, kind: u8) -> Option<Result<T, String>>
where
    T: Deserialize<'de>,
    I: serde::de::IntoDeserializer<'de, serde::de::value::Error> + Clone,
{
    use serde::de::value::{MapDeserializer, SeqDeserializer};
    use serde::de::IntoDeserializer;
    let r = match kind {
        0 => T::deserialize(raw.into_deserializer()),
        1 => T::deserialize(SeqDeserializer::new(std::iter::once(raw))),
        2 => T::deserialize(MapDeserializer::new(std::iter::once(("0", raw)))),
        3 => T::deserialize(SeqDeserializer::new([raw.clone(), raw].into_iter())),
        _ => return None,
    };
    Some(r.map_err(|e| e.to_string()))
}
pub const DE_VALUE_KINDS: u8 = 4;

pub fn run_arbitrary<'a, T: arbitrary::Arbitrary<'a>, I>(b: &'a [u8], into: fn(T) -> I) -> Result<I, String> {
    let mut u = arbitrary::Unstructured::new(b);
    T::arbitrary(&mut u).map(into).map_err(|e| format!("{e:?}"))
}

#[macro_export]
macro_rules! g_de_value {
    () => {
        Some(|raw: II, kind: u8| $crate::glue::de_value::<TT, II>(raw, kind).map(|r| r.map(|t| t.into_inner())))
    };
}
#[macro_export]
macro_rules! g_ctor_try {
    () => {
        |raw: II| TT::try_new(raw).map(|v| v.into_inner()).map_err(err)
    };
}
#[macro_export]
macro_rules! g_ctor_new {
    () => {
        |raw: II| Ok(TT::new(raw).into_inner())
    };
}
#[macro_export]
macro_rules! g_try_from_v {
    () => {
        Some(|raw: II| <TT as ::core::convert::TryFrom<II>>::try_from(raw).map(|v| v.into_inner()).map_err(err))
    };
}
#[macro_export]
macro_rules! g_try_from_n {
    () => {
        Some(|raw: II| {
            <TT as ::core::convert::TryFrom<II>>::try_from(raw)
                .map(|v| v.into_inner())
                .map_err(|e: ::core::convert::Infallible| match e {})
        })
    };
}
#[macro_export]
macro_rules! g_try_from_str_v {
    () => {
        Some(|s: &str| <TT as ::core::convert::TryFrom<&str>>::try_from(s).map(|v| v.into_inner()).map_err(err))
    };
}
#[macro_export]
macro_rules! g_try_from_str_n {
    () => {
        Some(|s: &str| {
            <TT as ::core::convert::TryFrom<&str>>::try_from(s)
                .map(|v| v.into_inner())
                .map_err(|e: ::core::convert::Infallible| match e {})
        })
    };
}
#[macro_export]
macro_rules! g_from {
    () => {
        Some(|raw: II| <TT as ::core::convert::From<II>>::from(raw).into_inner())
    };
}
#[macro_export]
macro_rules! g_from_str_ref {
    () => {
        Some(|s: &str| <TT as ::core::convert::From<&str>>::from(s).into_inner())
    };
}
#[macro_export]
macro_rules! g_from_str_s_v {
    () => {
        Some(|s: &str| <TT as ::core::str::FromStr>::from_str(s).map(|v| v.into_inner()).map_err(err))
    };
}
#[macro_export]
macro_rules! g_from_str_s_n {
    () => {
        Some(|s: &str| {
            <TT as ::core::str::FromStr>::from_str(s)
                .map(|v| v.into_inner())
                .map_err(|e: ::core::convert::Infallible| match e {})
        })
    };
}
#[macro_export]
macro_rules! g_from_str_v {
    () => {
        Some(|s: &str| match <TT as ::core::str::FromStr>::from_str(s) {
            Ok(v) => $crate::types::FsOut::Ok(v.into_inner()),
            Err(PE::Parse(e)) => $crate::types::FsOut::Parse(format!("{e:?}")),
            Err(PE::Validate(e)) => $crate::types::FsOut::Validate(err(e)),
        })
    };
}
#[macro_export]
macro_rules! g_from_str_n {
    () => {
        Some(|s: &str| match <TT as ::core::str::FromStr>::from_str(s) {
            Ok(v) => $crate::types::FsOut::Ok(v.into_inner()),
            Err(PE::Parse(e)) => $crate::types::FsOut::Parse(format!("{e:?}")),
        })
    };
}
#[macro_export]
macro_rules! g_from_str_err_text {
    () => {
        Some(|s: &str| <TT as ::core::str::FromStr>::from_str(s).err().map(|e| e.to_string()))
    };
}
#[macro_export]
macro_rules! g_default {
    () => {
        Some(|| <TT as ::core::default::Default>::default().into_inner())
    };
}
#[macro_export]
macro_rules! g_de {
    () => {
        Some(|f: $crate::types::Fmt, p: $crate::types::Pos, b: &[u8]| $crate::glue::de_any::<TT, II>(f, p, b, |v| v.into_inner()))
    };
}
#[macro_export]
macro_rules! g_de_key {
    () => {
        Some(|f: $crate::types::Fmt, b: &[u8]| $crate::glue::de_key::<TT, II>(f, b, |v| v.into_inner()))
    };
}
#[macro_export]
macro_rules! g_ser {
    () => {
        Some(|raw: II, f: $crate::types::Fmt| mk(raw).map(|v| $crate::glue::enc(f, &v)))
    };
}
#[macro_export]
macro_rules! g_arbitrary {
    () => {
        Some(|b: &[u8]| $crate::glue::run_arbitrary::<TT, II>(b, |v| v.into_inner()))
    };
}
#[macro_export]
macro_rules! g_display {
    () => {
        Some(|raw: II| mk(raw).map(|v| $crate::glue::fmt_all(&v)))
    };
}
#[macro_export]
macro_rules! g_as_ref {
    () => {
        Some(|raw: II| mk(raw).map(|v| <TT as ::core::convert::AsRef<II>>::as_ref(&v).clone()))
    };
}
#[macro_export]
macro_rules! g_as_ref_str {
    () => {
        Some(|raw: II| mk(raw).map(|v| <TT as ::core::convert::AsRef<str>>::as_ref(&v).to_string()))
    };
}
#[macro_export]
macro_rules! g_deref {
    () => {
        Some(|raw: II| {
            mk(raw).map(|v| {
                let r: &II = &*v;
                r.clone()
            })
        })
    };
}
#[macro_export]
macro_rules! g_borrow {
    () => {
        Some(|raw: II| mk(raw).map(|v| <TT as ::core::borrow::Borrow<II>>::borrow(&v).clone()))
    };
}
#[macro_export]
macro_rules! g_borrow_str {
    () => {
        Some(|raw: II| mk(raw).map(|v| <TT as ::core::borrow::Borrow<str>>::borrow(&v).to_string()))
    };
}
#[macro_export]
macro_rules! g_into {
    () => {
        Some(|raw: II| {
            mk(raw).map(|v| {
                let i: II = v.into();
                i
            })
        })
    };
}
#[macro_export]
macro_rules! g_clone {
    () => {
        Some(|raw: II| mk(raw).map(|v| v.clone().into_inner()))
    };
}
#[macro_export]
macro_rules! g_copy {
    () => {
        Some(|raw: II| {
            mk(raw).map(|v| {
                let w = v;
                let _still_usable = v;
                w.into_inner()
            })
        })
    };
}
#[macro_export]
macro_rules! g_eq {
    () => {
        Some(|a: II, b: II| Some(mk(a)? == mk(b)?))
    };
}
/// the comparison operators themselves (`PartialOrd`'s provided methods can be overridden): [<, <=, >, >=, !=]
#[macro_export]
macro_rules! g_cmp_ops {
    () => {
        Some(|a: II, b: II| {
            let (x, y) = (mk(a)?, mk(b)?);
            Some([x < y, x <= y, x > y, x >= y, x != y])
        })
    };
}
/// `Ord`'s provided methods: (max, min) as inner values
#[macro_export]
macro_rules! g_ord_minmax {
    () => {
        Some(|a: II, b: II| {
            let hi = ::core::cmp::Ord::max(mk(a.clone())?, mk(b.clone())?).into_inner();
            let lo = ::core::cmp::Ord::min(mk(a)?, mk(b)?).into_inner();
            Some((hi, lo))
        })
    };
}
/// one object on both sides: (`x == x`, `x != x`)
#[macro_export]
macro_rules! g_eq_self {
    () => {
        Some(|a: II| {
            let t = mk(a)?;
            let (l, r) = (&t, &t);
            Some((l == r, l != r))
        })
    };
}
#[macro_export]
macro_rules! g_partial_cmp_self {
    () => {
        Some(|a: II| {
            let t = mk(a)?;
            let (l, r) = (&t, &t);
            Some(l.partial_cmp(r))
        })
    };
}
#[macro_export]
macro_rules! g_partial_cmp {
    () => {
        Some(|a: II, b: II| Some(mk(a)?.partial_cmp(&mk(b)?)))
    };
}
#[macro_export]
macro_rules! g_cmp {
    () => {
        Some(|a: II, b: II| Some(::core::cmp::Ord::cmp(&mk(a)?, &mk(b)?)))
    };
}
#[macro_export]
macro_rules! g_hash {
    () => {
        Some(|raw: II| mk(raw).map(|v| $crate::types::fixed_hash(&v)))
    };
}
#[macro_export]
macro_rules! g_sort {
    () => {
        Some(|raws: Vec<II>| {
            let mut v: Vec<TT> = raws.into_iter().filter_map(mk).collect();
            v.sort();
            v.into_iter().map(|x| x.into_inner()).collect()
        })
    };
}
#[macro_export]
macro_rules! g_btree {
    () => {
        Some(|raws: Vec<II>| {
            let set: ::std::collections::BTreeSet<TT> = raws.clone().into_iter().filter_map(mk).collect();
            raws.into_iter().filter_map(mk).all(|k| set.contains(&k))
        })
    };
}
#[macro_export]
macro_rules! g_hashmap_borrow {
    () => {
        Some(|raw: II| {
            let inner: II = mk(raw.clone())?.into_inner();
            let mut m = ::std::collections::HashMap::new();
            m.insert(mk(raw.clone())?, 1u8);
            // and under a hasher that specialises the integer methods
            let mut m2: ::std::collections::HashMap<TT, u8, ::std::hash::BuildHasherDefault<$crate::types::CallRecordingHasher>> = Default::default();
            m2.insert(mk(raw)?, 1u8);
            Some(m.get::<II>(&inner).is_some() && m2.get::<II>(&inner).is_some())
        })
    };
}
#[macro_export]
macro_rules! g_hashmap_borrow_str {
    () => {
        Some(|raw: II| {
            let inner: II = mk(raw.clone())?.into_inner();
            let mut m = ::std::collections::HashMap::new();
            m.insert(mk(raw.clone())?, 1u8);
            let mut m2: ::std::collections::HashMap<TT, u8, ::std::hash::BuildHasherDefault<$crate::types::CallRecordingHasher>> = Default::default();
            m2.insert(mk(raw)?, 1u8);
            Some(m.get::<str>(inner.as_str()).is_some() && m.get::<String>(&inner).is_some() && m2.get::<str>(inner.as_str()).is_some() && m2.get::<String>(&inner).is_some())
        })
    };
}
#[macro_export]
macro_rules! g_into_iter {
    () => {
        Some(|raw: II| mk(raw).map(|v| v.into_iter().collect::<Vec<i32>>()))
    };
}
#[macro_export]
macro_rules! g_iter_ref {
    () => {
        Some(|raw: II| mk(raw).map(|v| (&v).into_iter().cloned().collect::<Vec<i32>>()))
    };
}
#[macro_export]
macro_rules! g_err_text {
    () => {
        Some(|i: usize| err_from_ix(i).map(|e| format!("{}", e)))
    };
}

#[macro_export]
macro_rules! g_de_in_place {
    () => {
        Some(|start: II, f: $crate::types::Fmt, b: &[u8]| {
            let mut t = mk(start)?;
            let ok = $crate::glue::de_in_place(f, b, &mut t);
            Some((ok, t.into_inner()))
        })
    };
}
