//! Run-time types shared by the generated corpus crates and the check library.
//!
//! Everything here works at the level of the *inner* type `I` of a generated
//! newtype: the glue emitted next to each declaration converts the newtype API
//! into plain `fn` pointers over `I`, so the checks are generic over the ~17 inner
//! types instead of over thousands of generated types.

use serde_json::{json, Value};
use std::cmp::Ordering;

/// Error reported by a constructor, reduced to data.
#[derive(Clone, Debug, PartialEq, Eq)]
pub enum ErrR {
    /// index of the declared validator whose variant was returned
    Ix(usize),
    /// payload of the user-defined error of a `with =`/`error =` validator
    Custom(i64),
}

impl ErrR {
    pub fn show(&self) -> String {
        match self {
            ErrR::Ix(i) => format!("Ix({i})"),
            ErrR::Custom(c) => format!("Custom({c})"),
        }
    }
}

/// Outcome of `FromStr` for non-string newtypes.
#[derive(Clone, Debug, PartialEq)]
pub enum FsOut<I> {
    Ok(I),
    /// `Debug` rendering of the inner type's parse error
    Parse(String),
    Validate(ErrR),
}

#[derive(Clone, Copy, Debug, PartialEq, Eq)]
pub enum Kind {
    Int,
    Float,
    Str,
    Other,
}

#[derive(Clone, Copy, Debug, PartialEq, Eq)]
pub enum Fmt {
    Json,
    Ron,
    MsgPack,
    /// JSON bytes decoded through `serde_json::from_reader`: nothing can be borrowed from the input
    /// (strings arrive as transient `visit_str`)
    JsonReader,
    /// JSON bytes parsed into a `serde_json::Value` and decoded with `from_value` (owned `visit_string`,
    /// numbers re-typed through u64/i64/f64)
    JsonValue,
    /// RON written with `PrettyConfig::struct_names(true)`: newtype structs carry their name (`Age(42)`), and the
    /// deserializer compares it with the name the Deserialize impl announces
    RonNamed,
}
pub const FMTS: [Fmt; 3] = [Fmt::Json, Fmt::Ron, Fmt::MsgPack];
/// the encoders above plus the two further decoders of JSON bytes
pub const ALL_FMTS: [Fmt; 6] = [Fmt::Json, Fmt::Ron, Fmt::MsgPack, Fmt::JsonReader, Fmt::JsonValue, Fmt::RonNamed];

#[derive(Clone, Copy, Debug, PartialEq, Eq)]
pub enum Pos {
    Top,
    Vec,
    Opt,
    Field,
    MapVal,
    MapKey,
}
pub const POSITIONS: [Pos; 6] = [Pos::Top, Pos::Vec, Pos::Opt, Pos::Field, Pos::MapVal, Pos::MapKey];

/// Sanitizer of the reference model.
pub enum San<I: 'static> {
    Trim,
    Lower,
    Upper,
    With { name: &'static str, f: fn(I) -> I, idempotent: bool },
}

/// Validator of the reference model. Bounds are values computed by rustc from the
/// neutral `const` next to the declaration.
pub enum Val<I: 'static> {
    Greater(I),
    GreaterEq(I),
    Less(I),
    LessEq(I),
    Finite,
    Predicate { name: &'static str, f: fn(&I) -> bool },
    LenCharMin(usize),
    LenCharMax(usize),
    NotEmpty,
    Regex(&'static str),
}

impl<I> Val<I> {
    pub fn kind_name(&self) -> &'static str {
        match self {
            Val::Greater(_) => "greater",
            Val::GreaterEq(_) => "greater_or_equal",
            Val::Less(_) => "less",
            Val::LessEq(_) => "less_or_equal",
            Val::Finite => "finite",
            Val::Predicate { .. } => "predicate",
            Val::LenCharMin(_) => "len_char_min",
            Val::LenCharMax(_) => "len_char_max",
            Val::NotEmpty => "not_empty",
            Val::Regex(_) => "regex",
        }
    }
}

pub enum Vals<I: 'static> {
    None,
    Std(&'static [Val<I>]),
    Custom { name: &'static str, f: fn(&I) -> Result<(), i64> },
}

pub struct Model<I: 'static> {
    pub sans: &'static [San<I>],
    pub vals: Vals<I>,
    /// neutral evaluation of the `default = ..` expression, when declared
    pub default_raw: Option<fn() -> I>,
}

impl<I> Model<I> {
    pub fn has_validation(&self) -> bool {
        !matches!(self.vals, Vals::None)
    }
    pub fn std_vals(&self) -> &'static [Val<I>] {
        match self.vals {
            Vals::Std(v) => v,
            _ => &[],
        }
    }
    pub fn builtin_only(&self) -> bool {
        self.sans.iter().all(|s| !matches!(s, San::With { idempotent: false, .. }))
            && match &self.vals {
                Vals::None | Vals::Std(_) => true,
                Vals::Custom { .. } => true,
            }
    }
}

pub type Mk2<I, R> = fn(I, I) -> Option<R>;

/// Table of entry points of one generated newtype, at the level of the inner type.
/// `None` = the corresponding trait is not derived.
pub struct Vt<I: 'static> {
    pub id: &'static str,
    pub type_name: &'static str,
    /// the `#[nutype(..)] struct ..` text, for samples and replays
    pub decl: &'static str,
    pub tags: &'static [&'static str],
    pub model: &'static Model<I>,
    /// the declaration this one must agree with on every input (const_fn / generic twin)
    pub twin: Option<&'static Vt<I>>,
    pub derives: &'static [&'static str],

    pub ctor: fn(I) -> Result<I, ErrR>,
    pub try_from: Option<fn(I) -> Result<I, ErrR>>,
    pub try_from_str: Option<fn(&str) -> Result<I, ErrR>>,
    pub from: Option<fn(I) -> I>,
    pub from_str_ref: Option<fn(&str) -> I>,
    /// string newtypes: FromStr delegates to the constructor
    pub from_str_s: Option<fn(&str) -> Result<I, ErrR>>,
    /// non-string newtypes
    pub from_str: Option<fn(&str) -> FsOut<I>>,
    /// Display of the FromStr error (None when from_str succeeded)
    pub from_str_err_text: Option<fn(&str) -> Option<String>>,
    pub default: Option<fn() -> I>,
    /// generic declarations: `Default` through several instantiations in sequence:
    /// (instantiation, constructor accepts its default, None = panicked | Some(equals constructor result))
    pub default_history: Option<fn() -> Vec<(String, bool, Option<bool>)>>,

    pub de: Option<fn(Fmt, Pos, &[u8]) -> Result<Vec<I>, String>>,
    pub de_key: Option<fn(Fmt, &[u8]) -> Result<Vec<I>, String>>,
    /// the same document decoded as a serde-derived reference newtype of the same name
    pub de_ref: Option<fn(Fmt, Pos, &[u8]) -> Result<Vec<I>, String>>,
    pub ser_ref: Option<fn(I, Fmt) -> Result<Vec<u8>, String>>,
    /// deserialize_in_place into an existing value built from the first argument: (succeeded, value afterwards)
    pub de_in_place: Option<fn(I, Fmt, &[u8]) -> Option<(bool, I)>>,
    /// Deserialize through serde's in-memory value deserializers built from an inner value (see `glue::de_value`)
    pub de_value: Option<fn(I, u8) -> Option<Result<I, String>>>,
    pub ser: Option<fn(I, Fmt) -> Option<Result<Vec<u8>, String>>>,
    pub arbitrary: Option<fn(&[u8]) -> Result<I, String>>,
    /// declarations whose bound expression reads run-time state: the generator's range after each change of
    /// that state - (label, every currently valid value is produced and nothing else)
    pub arb_history: Option<fn() -> Vec<(String, bool)>>,

    /// formatted under the fixed spec list of `glue::fmt_all` (element 0 is plain `{}`)
    pub display: Option<fn(I) -> Option<Vec<String>>>,
    pub as_ref: Option<fn(I) -> Option<I>>,
    pub deref: Option<fn(I) -> Option<I>>,
    pub borrow: Option<fn(I) -> Option<I>>,
    /// string newtypes: Borrow<String> (borrow above is Borrow<str>)
    pub borrow2: Option<fn(I) -> Option<I>>,
    pub into: Option<fn(I) -> Option<I>>,
    pub clone: Option<fn(I) -> Option<I>>,
    pub copy: Option<fn(I) -> Option<I>>,
    pub eq: Option<Mk2<I, bool>>,
    pub partial_cmp: Option<Mk2<I, Option<Ordering>>>,
    /// the operators [<, <=, >, >=, !=] on two values
    pub cmp_ops: Option<Mk2<I, [bool; 5]>>,
    /// `Ord::max` / `Ord::min` of two values, as inner values
    pub ord_minmax: Option<Mk2<I, (I, I)>>,
    /// the same object on both sides of `==` / `!=` / `partial_cmp`
    pub eq_self: Option<fn(I) -> Option<(bool, bool)>>,
    pub partial_cmp_self: Option<fn(I) -> Option<Option<Ordering>>>,
    pub cmp: Option<Mk2<I, Ordering>>,
    pub hash: Option<fn(I) -> Option<u64>>,
    /// sort a vector of newtypes built from the given raw values (rejected ones dropped)
    pub sort: Option<fn(Vec<I>) -> Vec<I>>,
    /// BTreeMap insert-then-lookup round trip: all inserted keys found
    pub btree: Option<fn(Vec<I>) -> bool>,
    /// HashMap lookup through Borrow<borrowed form>: insert T, look up by &inner
    pub hashmap_borrow: Option<fn(I) -> Option<bool>>,
    pub into_iter: Option<fn(I) -> Option<Vec<i32>>>,
    pub iter_ref: Option<fn(I) -> Option<Vec<i32>>>,
    /// Display text of the error variant with the given index
    pub err_text: Option<fn(usize) -> Option<String>>,
    /// values of `const X: .. = T::try_new(LIT)` evaluated by rustc at compile time: (raw, result)
    pub const_evals: Option<fn() -> Vec<(I, Result<I, ErrR>)>>,
}

impl<I: 'static> Vt<I> {
    pub const fn none(
        id: &'static str,
        type_name: &'static str,
        decl: &'static str,
        model: &'static Model<I>,
        ctor: fn(I) -> Result<I, ErrR>,
    ) -> Self {
        Vt {
            id,
            type_name,
            decl,
            tags: &[],
            model,
            twin: None,
            derives: &[],
            ctor,
            try_from: None,
            try_from_str: None,
            from: None,
            from_str_ref: None,
            from_str_s: None,
            from_str: None,
            from_str_err_text: None,
            default: None,
            default_history: None,
            de: None,
            de_key: None,
            de_ref: None,
            de_in_place: None,
            de_value: None,
            ser_ref: None,
            ser: None,
            arbitrary: None,
            arb_history: None,
            display: None,
            as_ref: None,
            deref: None,
            borrow: None,
            borrow2: None,
            into: None,
            clone: None,
            copy: None,
            eq: None,
            partial_cmp: None,
            cmp_ops: None,
            ord_minmax: None,
            eq_self: None,
            partial_cmp_self: None,
            cmp: None,
            hash: None,
            sort: None,
            btree: None,
            hashmap_borrow: None,
            into_iter: None,
            iter_ref: None,
            err_text: None,
            const_evals: None,
        }
    }
    pub fn derives_trait(&self, t: &str) -> bool {
        self.derives.iter().any(|d| *d == t)
    }
}

/// A user-defined inner type for the "anything else" family.
#[derive(Clone, Copy, Debug, PartialEq, Eq, Ord, Hash, Default)]
pub struct Point {
    pub x: i16,
    pub y: i16,
}

/// Like `IpAddr`, `Uuid` or chrono's types, `Point` has two wire forms and asks the (de)serializer which one
/// to use: the text `x;y` for human-readable formats, the pair `(x, y)` for binary ones. A newtype around it
/// has to hand `is_human_readable()` through unchanged in both directions.
impl serde::Serialize for Point {
    fn serialize<S: serde::Serializer>(&self, s: S) -> Result<S::Ok, S::Error> {
        if s.is_human_readable() {
            s.serialize_str(&format!("{};{}", self.x, self.y))
        } else {
            serde::Serialize::serialize(&(self.x, self.y), s)
        }
    }
}

impl<'de> serde::Deserialize<'de> for Point {
    fn deserialize<D: serde::Deserializer<'de>>(d: D) -> Result<Self, D::Error> {
        if d.is_human_readable() {
            let s = <String as serde::Deserialize>::deserialize(d)?;
            <Point as std::str::FromStr>::from_str(&s).map_err(|e| serde::de::Error::custom(format!("{e:?}")))
        } else {
            let (x, y) = <(i16, i16) as serde::Deserialize>::deserialize(d)?;
            Ok(Point { x, y })
        }
    }
}

impl std::fmt::Display for Point {
    fn fmt(&self, f: &mut std::fmt::Formatter<'_>) -> std::fmt::Result {
        write!(f, "{};{}", self.x, self.y)
    }
}

#[derive(Debug, Clone, PartialEq, Eq)]
pub struct PointParseError(pub String);

impl Point {
    /// An *inherent* `from_str` with another grammar (`x,y`) than the `FromStr` impl (`x;y`): generated code
    /// that is meant to use the inner type's `FromStr` must not pick this one up by path resolution.
    pub fn from_str(s: &str) -> Result<Point, PointParseError> {
        let (a, b) = s.split_once(',').ok_or_else(|| PointParseError("no ','".into()))?;
        Ok(Point { x: a.parse::<i16>().map_err(|e| PointParseError(format!("x: {e:?}")))?, y: b.parse::<i16>().map_err(|e| PointParseError(format!("y: {e:?}")))? })
    }
}

/// `PartialOrd` that is *not* `Some(cmp)`: points with `x == i16::MIN` are unordered, as NaN is among floats
/// (a type with IEEE `partial_cmp` and a total `Ord` behaves like this). A newtype's `PartialOrd` has to give
/// the inner type's `PartialOrd` answers, its `Ord` the inner type's `Ord` answers.
impl PartialOrd for Point {
    fn partial_cmp(&self, o: &Self) -> Option<Ordering> {
        if self.x == i16::MIN || o.x == i16::MIN {
            None
        } else {
            Some(Ord::cmp(self, o))
        }
    }
}

thread_local! {
    /// how often `<Point as FromStr>::from_str` ran on this thread (a parser need not be pure or cheap:
    /// code that parses on the user's behalf runs it once per call)
    pub static POINT_PARSE_CALLS: std::cell::Cell<u32> = const { std::cell::Cell::new(0) };
}

impl std::str::FromStr for Point {
    type Err = PointParseError;
    fn from_str(s: &str) -> Result<Self, Self::Err> {
        POINT_PARSE_CALLS.with(|c| c.set(c.get() + 1));
        let (a, b) = s.split_once(';').ok_or_else(|| PointParseError("no ';'".into()))?;
        let x = a.parse::<i16>().map_err(|e| PointParseError(format!("x: {e:?}")))?;
        let y = b.parse::<i16>().map_err(|e| PointParseError(format!("y: {e:?}")))?;
        Ok(Point { x, y })
    }
}

impl<'a> arbitrary::Arbitrary<'a> for Point {
    fn arbitrary(u: &mut arbitrary::Unstructured<'a>) -> arbitrary::Result<Self> {
        Ok(Point { x: u.arbitrary()?, y: u.arbitrary()? })
    }
}

/// Everything the generic checks need to know about an inner type.
pub trait InnerTy:
    Clone + std::fmt::Debug + Send + Sync + serde::Serialize + serde::de::DeserializeOwned + 'static
{
    const NAME: &'static str;
    const KIND: Kind;
    /// identity: bitwise for floats, `==` otherwise
    fn same(&self, o: &Self) -> bool;
    /// stable bytes for de-duplication and hashing of cases
    fn key(&self) -> Vec<u8>;
    /// lossless JSON rendering for samples and replay files
    fn to_json(&self) -> Value;
    fn from_json(v: &Value) -> Option<Self>;
    /// ordering key used to choose the smallest failing input of an enumeration
    fn weight(&self) -> u128;

    // numeric families
    fn pcmp(&self, _o: &Self) -> Option<Ordering> {
        unreachable!("pcmp on non-numeric inner type")
    }
    fn is_finite_(&self) -> bool {
        true
    }
    /// exact widening to f64 (floats only)
    fn to_f64_(&self) -> Option<f64> {
        None
    }
    // string family
    fn as_str_(&self) -> &str {
        unreachable!("as_str_ on non-string inner type")
    }
    fn from_string_(_s: String) -> Self {
        unreachable!("from_string_ on non-string inner type")
    }
    /// hash of the borrowed form with the fixed-key hasher (what `Borrow` requires `Hash` to agree with)
    fn hash_borrowed(&self) -> Option<u64>;
    fn display_(&self) -> Option<String>;
    /// the inner value under the spec list of `glue::fmt_all`
    fn display_all_(&self) -> Option<Vec<String>> {
        None
    }
    fn parse_(s: &str) -> Option<Result<Self, String>>;
    /// number of runs of the inner type's `FromStr` on this thread since the last reset (None = not counted)
    fn parse_calls_() -> Option<u32> {
        None
    }
    fn parse_calls_reset_() {}
    fn inner_eq(&self, o: &Self) -> bool;
    fn inner_partial_cmp(&self, o: &Self) -> Option<Option<Ordering>>;
    /// the inner type's `Ord` (where it has one that can differ from `partial_cmp`)
    fn inner_cmp(&self, o: &Self) -> Option<Ordering> {
        self.inner_partial_cmp(o).flatten()
    }
    /// the inner type's own `Ord::max` / `Ord::min` (std implements them through `<`, so for a type whose
    /// `PartialOrd` disagrees with its `Ord` they are not what `cmp` alone would suggest)
    fn inner_max_min(&self, o: &Self) -> Option<(Self, Self)> {
        let pc = self.inner_cmp(o)?;
        Some(if pc == Ordering::Greater { (self.clone(), o.clone()) } else { (o.clone(), self.clone()) })
    }
}

/// A hasher that distinguishes *which* `Hasher` method delivered each piece of data (`write_u32(x)` differs
/// from `write(&x.to_ne_bytes())`): hashers such as FxHash specialise the integer methods, so a newtype
/// whose `Hash` feeds the same bytes through another method misses in a map keyed by the borrowed form,
/// although SipHash would not show it.
pub struct CallRecordingHasher(u64);

impl Default for CallRecordingHasher {
    fn default() -> Self {
        CallRecordingHasher(0xcbf29ce484222325)
    }
}

impl CallRecordingHasher {
    fn feed(&mut self, tag: u8, bytes: &[u8]) {
        for b in std::iter::once(tag).chain((bytes.len() as u32).to_le_bytes()).chain(bytes.iter().copied()) {
            self.0 ^= b as u64;
            self.0 = self.0.wrapping_mul(0x100000001b3);
        }
    }
}

impl std::hash::Hasher for CallRecordingHasher {
    fn finish(&self) -> u64 {
        self.0
    }
    fn write(&mut self, bytes: &[u8]) {
        self.feed(0, bytes)
    }
    fn write_u8(&mut self, i: u8) {
        self.feed(1, &i.to_le_bytes())
    }
    fn write_u16(&mut self, i: u16) {
        self.feed(2, &i.to_le_bytes())
    }
    fn write_u32(&mut self, i: u32) {
        self.feed(3, &i.to_le_bytes())
    }
    fn write_u64(&mut self, i: u64) {
        self.feed(4, &i.to_le_bytes())
    }
    fn write_u128(&mut self, i: u128) {
        self.feed(5, &i.to_le_bytes())
    }
    fn write_usize(&mut self, i: usize) {
        self.feed(6, &i.to_le_bytes())
    }
    fn write_i8(&mut self, i: i8) {
        self.feed(7, &i.to_le_bytes())
    }
    fn write_i16(&mut self, i: i16) {
        self.feed(8, &i.to_le_bytes())
    }
    fn write_i32(&mut self, i: i32) {
        self.feed(9, &i.to_le_bytes())
    }
    fn write_i64(&mut self, i: i64) {
        self.feed(10, &i.to_le_bytes())
    }
    fn write_i128(&mut self, i: i128) {
        self.feed(11, &i.to_le_bytes())
    }
    fn write_isize(&mut self, i: isize) {
        self.feed(12, &i.to_le_bytes())
    }
}

pub fn fixed_hash<T: std::hash::Hash + ?Sized>(t: &T) -> u64 {
    use std::hash::Hasher;
    let mut h = CallRecordingHasher(0xcbf29ce484222325);
    t.hash(&mut h);
    h.finish()
}

macro_rules! impl_int {
    ($($t:ty),*) => {$(
        impl InnerTy for $t {
            const NAME: &'static str = stringify!($t);
            const KIND: Kind = Kind::Int;
            fn same(&self, o: &Self) -> bool { self == o }
            fn key(&self) -> Vec<u8> { self.to_le_bytes().to_vec() }
            fn to_json(&self) -> Value { json!(self.to_string()) }
            fn from_json(v: &Value) -> Option<Self> { v.as_str()?.parse().ok() }
            #[allow(unused_comparisons)]
            fn weight(&self) -> u128 { if *self < 0 { (*self as i128).unsigned_abs().saturating_mul(2).saturating_add(1) } else { (*self as u128).saturating_mul(2) } }
            fn pcmp(&self, o: &Self) -> Option<Ordering> { Some(self.cmp(o)) }
            fn hash_borrowed(&self) -> Option<u64> { Some(fixed_hash(self)) }
            fn display_(&self) -> Option<String> { Some(self.to_string()) }
            fn display_all_(&self) -> Option<Vec<String>> { Some(crate::glue::fmt_all(self)) }
            fn parse_(s: &str) -> Option<Result<Self, String>> { Some(s.parse::<$t>().map_err(|e| format!("{e:?}"))) }
            fn inner_eq(&self, o: &Self) -> bool { self == o }
            fn inner_partial_cmp(&self, o: &Self) -> Option<Option<Ordering>> { Some(self.partial_cmp(o)) }
        }
    )*};
}
impl_int!(u8, u16, u32, u64, u128, usize, i8, i16, i32, i64, i128, isize);

macro_rules! impl_float {
    ($t:ty, $bits:ty, $name:literal) => {
        impl InnerTy for $t {
            const NAME: &'static str = $name;
            const KIND: Kind = Kind::Float;
            fn same(&self, o: &Self) -> bool {
                self.to_bits() == o.to_bits()
            }
            fn key(&self) -> Vec<u8> {
                self.to_bits().to_le_bytes().to_vec()
            }
            fn to_json(&self) -> Value {
                json!({"bits": format!("{:#x}", self.to_bits()), "approx": format!("{:?}", self)})
            }
            fn from_json(v: &Value) -> Option<Self> {
                let s = v.get("bits")?.as_str()?;
                let b = <$bits>::from_str_radix(s.trim_start_matches("0x"), 16).ok()?;
                Some(<$t>::from_bits(b))
            }
            fn weight(&self) -> u128 {
                if self.is_nan() {
                    u128::MAX
                } else {
                    (self.abs().to_bits() as u128) * 2 + (self.is_sign_negative() as u128)
                }
            }
            fn pcmp(&self, o: &Self) -> Option<Ordering> {
                self.partial_cmp(o)
            }
            fn to_f64_(&self) -> Option<f64> {
                Some(*self as f64)
            }
            fn is_finite_(&self) -> bool {
                // independent of f32::is_finite: exponent field not all ones
                let exp_mask: $bits = (<$t>::INFINITY).to_bits();
                (self.to_bits() & exp_mask) != exp_mask
            }
            fn hash_borrowed(&self) -> Option<u64> {
                None
            }
            fn display_(&self) -> Option<String> {
                Some(self.to_string())
            }
            fn display_all_(&self) -> Option<Vec<String>> {
                Some(crate::glue::fmt_all(self))
            }
            fn parse_(s: &str) -> Option<Result<Self, String>> {
                Some(s.parse::<$t>().map_err(|e| format!("{e:?}")))
            }
            fn inner_eq(&self, o: &Self) -> bool {
                self == o
            }
            fn inner_partial_cmp(&self, o: &Self) -> Option<Option<Ordering>> {
                Some(self.partial_cmp(o))
            }
        }
    };
}
impl_float!(f32, u32, "f32");
impl_float!(f64, u64, "f64");

impl InnerTy for String {
    const NAME: &'static str = "String";
    const KIND: Kind = Kind::Str;
    fn same(&self, o: &Self) -> bool {
        self.as_bytes() == o.as_bytes()
    }
    fn key(&self) -> Vec<u8> {
        self.as_bytes().to_vec()
    }
    fn to_json(&self) -> Value {
        json!({"s": self, "esc": self.escape_unicode().to_string()})
    }
    fn from_json(v: &Value) -> Option<Self> {
        Some(v.get("s")?.as_str()?.to_string())
    }
    fn weight(&self) -> u128 {
        ((self.len() as u128) << 64) | self.bytes().map(|b| b as u128).sum::<u128>()
    }
    fn as_str_(&self) -> &str {
        self.as_str()
    }
    fn from_string_(s: String) -> Self {
        s
    }
    fn hash_borrowed(&self) -> Option<u64> {
        Some(fixed_hash(self.as_str()))
    }
    fn display_(&self) -> Option<String> {
        Some(self.clone())
    }
    fn display_all_(&self) -> Option<Vec<String>> {
        Some(crate::glue::fmt_all(self))
    }
    fn parse_(_s: &str) -> Option<Result<Self, String>> {
        None
    }
    fn inner_eq(&self, o: &Self) -> bool {
        self == o
    }
    fn inner_partial_cmp(&self, o: &Self) -> Option<Option<Ordering>> {
        Some(self.partial_cmp(o))
    }
}

impl InnerTy for Vec<i32> {
    const NAME: &'static str = "Vec<i32>";
    const KIND: Kind = Kind::Other;
    fn same(&self, o: &Self) -> bool {
        self == o
    }
    fn key(&self) -> Vec<u8> {
        self.iter().flat_map(|x| x.to_le_bytes()).collect()
    }
    fn to_json(&self) -> Value {
        json!(self)
    }
    fn from_json(v: &Value) -> Option<Self> {
        serde_json::from_value(v.clone()).ok()
    }
    fn weight(&self) -> u128 {
        ((self.len() as u128) << 64) | self.iter().map(|x| x.unsigned_abs() as u128).sum::<u128>()
    }
    fn hash_borrowed(&self) -> Option<u64> {
        Some(fixed_hash(self))
    }
    fn display_(&self) -> Option<String> {
        None
    }
    fn parse_(_s: &str) -> Option<Result<Self, String>> {
        None
    }
    fn inner_eq(&self, o: &Self) -> bool {
        self == o
    }
    fn inner_partial_cmp(&self, o: &Self) -> Option<Option<Ordering>> {
        Some(self.partial_cmp(o))
    }
}

impl InnerTy for Point {
    const NAME: &'static str = "Point";
    const KIND: Kind = Kind::Other;
    fn same(&self, o: &Self) -> bool {
        self == o
    }
    fn key(&self) -> Vec<u8> {
        let mut v = self.x.to_le_bytes().to_vec();
        v.extend(self.y.to_le_bytes());
        v
    }
    fn to_json(&self) -> Value {
        json!({"x": self.x, "y": self.y})
    }
    fn from_json(v: &Value) -> Option<Self> {
        Some(Point { x: v.get("x")?.as_i64()? as i16, y: v.get("y")?.as_i64()? as i16 })
    }
    fn weight(&self) -> u128 {
        self.x.unsigned_abs() as u128 + self.y.unsigned_abs() as u128
    }
    fn hash_borrowed(&self) -> Option<u64> {
        Some(fixed_hash(self))
    }
    fn display_(&self) -> Option<String> {
        Some(self.to_string())
    }
    fn display_all_(&self) -> Option<Vec<String>> {
        Some(crate::glue::fmt_all(self))
    }
    fn parse_(s: &str) -> Option<Result<Self, String>> {
        Some(s.parse::<Point>().map_err(|e| format!("{e:?}")))
    }
    fn parse_calls_() -> Option<u32> {
        Some(POINT_PARSE_CALLS.with(|c| c.get()))
    }
    fn parse_calls_reset_() {
        POINT_PARSE_CALLS.with(|c| c.set(0));
    }
    fn inner_eq(&self, o: &Self) -> bool {
        self == o
    }
    fn inner_partial_cmp(&self, o: &Self) -> Option<Option<Ordering>> {
        Some(self.partial_cmp(o))
    }
    fn inner_cmp(&self, o: &Self) -> Option<Ordering> {
        Some(Ord::cmp(self, o))
    }
    fn inner_max_min(&self, o: &Self) -> Option<(Self, Self)> {
        Some((Ord::max(*self, *o), Ord::min(*self, *o)))
    }
}

/// byte buffers: the one sequence type serde has a second data-model representation for (`bytes`)
impl InnerTy for Vec<u8> {
    const NAME: &'static str = "Vec<u8>";
    const KIND: Kind = Kind::Other;
    fn same(&self, o: &Self) -> bool {
        self == o
    }
    fn key(&self) -> Vec<u8> {
        self.clone()
    }
    fn to_json(&self) -> Value {
        json!(self)
    }
    fn from_json(v: &Value) -> Option<Self> {
        serde_json::from_value(v.clone()).ok()
    }
    fn weight(&self) -> u128 {
        ((self.len() as u128) << 64) | self.iter().map(|x| *x as u128).sum::<u128>()
    }
    fn hash_borrowed(&self) -> Option<u64> {
        Some(fixed_hash(self))
    }
    fn display_(&self) -> Option<String> {
        None
    }
    fn parse_(_s: &str) -> Option<Result<Self, String>> {
        None
    }
    fn inner_eq(&self, o: &Self) -> bool {
        self == o
    }
    fn inner_partial_cmp(&self, o: &Self) -> Option<Option<Ordering>> {
        Some(self.partial_cmp(o))
    }
}

/// Inner type of lifetime-parameterised declarations `struct W<'a>(Cow<'a, [f32]>)`, instantiated at `'static`.
/// Its `PartialEq` is not reflexive (NaN elements) and it has no `Eq`/`Ord`/`Hash`.
pub type CowF = std::borrow::Cow<'static, [f32]>;

impl InnerTy for CowF {
    const NAME: &'static str = "Cow<[f32]>";
    const KIND: Kind = Kind::Other;
    fn same(&self, o: &Self) -> bool {
        self.len() == o.len() && self.iter().zip(o.iter()).all(|(a, b)| a.to_bits() == b.to_bits())
    }
    fn key(&self) -> Vec<u8> {
        self.iter().flat_map(|x| x.to_bits().to_le_bytes()).collect()
    }
    fn to_json(&self) -> Value {
        json!({"bits": self.iter().map(|x| format!("{:#x}", x.to_bits())).collect::<Vec<_>>(), "approx": format!("{:?}", self.as_ref())})
    }
    fn from_json(v: &Value) -> Option<Self> {
        let a = v.get("bits")?.as_array()?;
        let mut out = Vec::with_capacity(a.len());
        for x in a {
            out.push(f32::from_bits(u32::from_str_radix(x.as_str()?.trim_start_matches("0x"), 16).ok()?));
        }
        Some(std::borrow::Cow::Owned(out))
    }
    fn weight(&self) -> u128 {
        ((self.len() as u128) << 64) | self.iter().map(|x| x.to_bits() as u128).sum::<u128>()
    }
    fn hash_borrowed(&self) -> Option<u64> {
        None
    }
    fn display_(&self) -> Option<String> {
        None
    }
    fn parse_(_s: &str) -> Option<Result<Self, String>> {
        None
    }
    fn inner_eq(&self, o: &Self) -> bool {
        self == o
    }
    fn inner_partial_cmp(&self, o: &Self) -> Option<Option<Ordering>> {
        Some(self.partial_cmp(o))
    }
}

/// Registry entry: one generated declaration with its inner type made explicit.
pub enum Entry {
    U8(&'static Vt<u8>),
    U16(&'static Vt<u16>),
    U32(&'static Vt<u32>),
    U64(&'static Vt<u64>),
    U128(&'static Vt<u128>),
    Usize(&'static Vt<usize>),
    I8(&'static Vt<i8>),
    I16(&'static Vt<i16>),
    I32(&'static Vt<i32>),
    I64(&'static Vt<i64>),
    I128(&'static Vt<i128>),
    Isize(&'static Vt<isize>),
    F32(&'static Vt<f32>),
    F64(&'static Vt<f64>),
    Str(&'static Vt<String>),
    VecI32(&'static Vt<Vec<i32>>),
    Point(&'static Vt<Point>),
    CowF32(&'static Vt<CowF>),
    VecU8(&'static Vt<Vec<u8>>),
}

/// Dispatch a generic function over the inner type of an entry.
#[macro_export]
macro_rules! with_entry {
    ($e:expr, $vt:ident => $body:expr) => {
        match $e {
            $crate::types::Entry::U8($vt) => $body,
            $crate::types::Entry::U16($vt) => $body,
            $crate::types::Entry::U32($vt) => $body,
            $crate::types::Entry::U64($vt) => $body,
            $crate::types::Entry::U128($vt) => $body,
            $crate::types::Entry::Usize($vt) => $body,
            $crate::types::Entry::I8($vt) => $body,
            $crate::types::Entry::I16($vt) => $body,
            $crate::types::Entry::I32($vt) => $body,
            $crate::types::Entry::I64($vt) => $body,
            $crate::types::Entry::I128($vt) => $body,
            $crate::types::Entry::Isize($vt) => $body,
            $crate::types::Entry::F32($vt) => $body,
            $crate::types::Entry::F64($vt) => $body,
            $crate::types::Entry::Str($vt) => $body,
            $crate::types::Entry::VecI32($vt) => $body,
            $crate::types::Entry::Point($vt) => $body,
            $crate::types::Entry::CowF32($vt) => $body,
            $crate::types::Entry::VecU8($vt) => $body,
        }
    };
}

impl Entry {
    pub fn id(&self) -> &'static str {
        with_entry!(self, vt => vt.id)
    }
}
