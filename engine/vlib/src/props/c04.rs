//! C04 — deserialization can never produce a value the constructor would reject.
//! Differential: the same document decoded as a serde-derived reference newtype of the
//! same name (`RefNt`), then the constructor applied to every carried value.

use crate::docs::*;
use crate::drive::*;
use crate::glue::enc;
use crate::inputs::*;
use crate::model;
use crate::props::c01::{san_names, val_names};
use crate::report::*;
use crate::types::*;
use proptest::prelude::*;
use serde_json::json;

#[derive(Clone, Debug)]
pub struct Doc {
    pub fmt: Fmt,
    pub pos: Pos,
    pub bytes: Vec<u8>,
}

fn fmt_name(f: Fmt) -> &'static str {
    match f {
        Fmt::Json => "json",
        Fmt::Ron => "ron",
        Fmt::MsgPack => "msgpack",
        Fmt::JsonReader => "json-reader",
        Fmt::JsonValue => "json-value",
        Fmt::RonNamed => "ron-named",
    }
}
fn pos_name(p: Pos) -> &'static str {
    match p {
        Pos::Top => "top",
        Pos::Vec => "vec",
        Pos::Opt => "option",
        Pos::Field => "field",
        Pos::MapVal => "map-value",
        Pos::MapKey => "map-key",
    }
}
fn fmt_of(s: &str) -> Option<Fmt> {
    Some(match s {
        "json" => Fmt::Json,
        "ron" => Fmt::Ron,
        "msgpack" => Fmt::MsgPack,
        "json-reader" => Fmt::JsonReader,
        "json-value" => Fmt::JsonValue,
        "ron-named" => Fmt::RonNamed,
        _ => return None,
    })
}
fn pos_of(s: &str) -> Option<Pos> {
    Some(match s {
        "top" => Pos::Top,
        "vec" => Pos::Vec,
        "option" => Pos::Opt,
        "field" => Pos::Field,
        "map-value" => Pos::MapVal,
        "map-key" => Pos::MapKey,
        _ => return None,
    })
}

impl Case for Doc {
    fn key(&self) -> Vec<u8> {
        let mut k = vec![self.fmt as u8, self.pos as u8];
        k.extend(&self.bytes);
        k
    }
    fn to_json(&self) -> serde_json::Value {
        json!({"format": fmt_name(self.fmt), "position": pos_name(self.pos), "hex": hex(&self.bytes), "text": String::from_utf8_lossy(&self.bytes)})
    }
    fn from_json(v: &serde_json::Value) -> Option<Self> {
        Some(Doc { fmt: fmt_of(v.get("format")?.as_str()?)?, pos: pos_of(v.get("position")?.as_str()?)?, bytes: unhex(v.get("hex")?.as_str()?)? })
    }
    fn weight(&self) -> u128 {
        ((self.bytes.len() as u128) << 16) | (self.pos as u128)
    }
}

/// a spread of inner values: valid, at each bound, beyond each bound, changed by sanitising
pub fn seed_values<I: Inputs>(vt: &Vt<I>, ctx: &Ctx, cap: usize) -> Vec<I> {
    let m = vt.model;
    let all = I::systematic(m, ctx.tier);
    let mut near = vec![];
    let mut rest = vec![];
    for v in all {
        if v.near_bound(m) || !model::sanitize(m, v.clone()).same(&v) {
            near.push(v);
        } else {
            rest.push(v);
        }
    }
    let mut out = vec![];
    let sn = (near.len() / (cap / 2).max(1)).max(1);
    out.extend(near.into_iter().step_by(sn).take(cap / 2));
    let sr = (rest.len() / (cap / 2).max(1)).max(1);
    out.extend(rest.into_iter().step_by(sr).take(cap / 2));
    out
}

pub fn documents<I: Inputs>(vt: &'static Vt<I>, ctx: &Ctx) -> Vec<Doc> {
    let name: &'static str = vt.type_name;
    let vals = seed_values(vt, ctx, if ctx.quick() { 24 } else { 120 });
    let filler = vals.first().cloned();
    let mut docs = vec![];
    let positions: Vec<Pos> = POSITIONS.iter().copied().filter(|p| *p != Pos::MapKey || vt.de_key.is_some()).collect();
    for (vi, v) in vals.iter().enumerate() {
        for (ei, e) in encodings_of(v).into_iter().enumerate() {
            // wrapped as a newtype struct (what Serialize of the newtype emits) and bare
            for wrapped in [true, false] {
                let dv = if wrapped { Dv::Newtype(name, Box::new(e.clone())) } else { e.clone() };
                for p in &positions {
                    // thin the cross product: every value at top position, every position for a rotating subset
                    if *p != Pos::Top && (vi + ei) % 3 != 0 {
                        continue;
                    }
                    let fill = filler.as_ref().map(|f| Dv::Newtype(name, Box::new(encodings_of(f).remove(0)))).unwrap_or(Dv::Unit);
                    let tree = at(*p, dv.clone(), fill);
                    for f in FMTS {
                        if !wrapped && f != Fmt::Ron && ei == 0 {
                            continue; // identical bytes to the wrapped form in JSON / MessagePack
                        }
                        if let Ok(bytes) = enc(f, &tree) {
                            // RON's named form `Name(..)` of a newtype struct (what `struct_names(true)` emits and
                            // what people write by hand): the deserializer compares the name with the one the
                            // Deserialize impl passes to `deserialize_newtype_struct`
                            if f == Fmt::Ron && wrapped && *p == Pos::Top && bytes.first() == Some(&b'(') {
                                docs.push(Doc { fmt: f, pos: *p, bytes: [name.as_bytes(), &bytes].concat() });
                                docs.push(Doc { fmt: f, pos: *p, bytes: [b"Other".as_slice(), &bytes].concat() });
                            }
                            docs.push(Doc { fmt: f, pos: *p, bytes });
                        }
                    }
                }
            }
        }
        // raw JSON / RON spellings of strings: every escape form, raw strings
        if I::KIND == Kind::Str {
            let text = v.as_str_();
            let all_u: String = text.encode_utf16().map(|u| format!("\\u{u:04x}")).collect();
            let all_u_upper: String = text.encode_utf16().map(|u| format!("\\u{u:04X}")).collect();
            for t in [format!("\"{all_u}\""), format!("\"{all_u_upper}\""), format!(" \"{all_u}\" "), format!("\"\\/{all_u}\\b\""), format!("\"{all_u}\\ud800\"")] {
                docs.push(Doc { fmt: Fmt::Json, pos: Pos::Top, bytes: t.clone().into_bytes() });
                docs.push(Doc { fmt: Fmt::Json, pos: Pos::Vec, bytes: format!("[{t}]").into_bytes() });
            }
            if !text.contains('"') && !text.contains('#') {
                let ron_u: String = text.chars().map(|c| format!("\\u{{{:x}}}", c as u32)).collect();
                for t in [format!("r#\"{text}\"#"), format!("r\"{text}\""), format!("\"{ron_u}\""), format!("{name}(r#\"{text}\"#)"), format!("{name}(\"{ron_u}\")")] {
                    docs.push(Doc { fmt: Fmt::Ron, pos: Pos::Top, bytes: t.into_bytes() });
                }
            }
        }
        // raw JSON / RON spellings of numbers
        if matches!(I::KIND, Kind::Int | Kind::Float) {
            if let Some(dec) = v.display_() {
                for t in json_number_variants(&dec) {
                    docs.push(Doc { fmt: Fmt::Json, pos: Pos::Top, bytes: t.clone().into_bytes() });
                    docs.push(Doc { fmt: Fmt::Ron, pos: Pos::Top, bytes: t.clone().into_bytes() });
                    docs.push(Doc { fmt: Fmt::Ron, pos: Pos::Top, bytes: format!("{name}({t})").into_bytes() });
                    docs.push(Doc { fmt: Fmt::Ron, pos: Pos::Top, bytes: format!("({t})").into_bytes() });
                    docs.push(Doc { fmt: Fmt::Ron, pos: Pos::Top, bytes: format!("Other({t})").into_bytes() });
                    docs.push(Doc { fmt: Fmt::Json, pos: Pos::Vec, bytes: format!("[{t},{t}]").into_bytes() });
                }
            }
        }
    }
    for t in ["1e400", "-1e400", "1E39", "NaN", "inf", "-inf", "null", "true", "\"\"", "\"\\u00df\\ud83d\\ude00\"", "\"\\ud800\"", "\" a \"", "[", "{", "", "\"abc", "99999999999999999999999999999999999999999", "-99999999999999999999999999999999999999999", "0.1", "-0", "-0.0", "1e-400"] {
        docs.push(Doc { fmt: Fmt::Json, pos: Pos::Top, bytes: t.as_bytes().to_vec() });
        docs.push(Doc { fmt: Fmt::Ron, pos: Pos::Top, bytes: t.as_bytes().to_vec() });
        docs.push(Doc { fmt: Fmt::Ron, pos: Pos::Top, bytes: format!("{name}({t})").into_bytes() });
    }
    // the same JSON bytes through the two other decoders (nothing borrowable / owned `Value` tree): every
    // top-position document, a rotating third of the others
    let mut extra = vec![];
    for (i, d) in docs.iter().enumerate() {
        if d.fmt == Fmt::Json && (d.pos == Pos::Top || i % 3 == 0) {
            extra.push(Doc { fmt: Fmt::JsonReader, pos: d.pos, bytes: d.bytes.clone() });
            extra.push(Doc { fmt: Fmt::JsonValue, pos: d.pos, bytes: d.bytes.clone() });
        }
    }
    docs.extend(extra);
    docs
}

pub fn check<I: Inputs>(vt: &'static Vt<I>, ctx: &Ctx) -> DeclReport {
    let (Some(de), Some(de_ref)) = (vt.de, vt.de_ref) else { return DeclReport::irrelevant(vt.id) };
    let mut rep = DeclReport::new(vt.id);
    let info = DeclInfo::of(vt);
    let m = vt.model;
    let sig = |d: &Doc, w: &str| format!("C04|{}|{}|{}|{w}|sans={}|vals={}", I::NAME, fmt_name(d.fmt), pos_name(d.pos), san_names(m), val_names(m));
    let eval = |d: &Doc| -> Outcome { eval_doc(vt, d) };
    let docs = documents(vt, ctx);
    // random: byte-level mutation of generated documents + documents of random values
    let base: Vec<Doc> = docs.iter().step_by((docs.len() / 200).max(1)).cloned().collect();
    let strat = if base.is_empty() {
        None
    } else {
        Some(
            (proptest::sample::select(base), proptest::collection::vec((any::<proptest::sample::Index>(), any::<u8>(), 0u8..4), 0..3))
                .prop_map(|(mut d, muts)| {
                    for (ix, b, kind) in muts {
                        if d.bytes.is_empty() {
                            d.bytes.push(b);
                            continue;
                        }
                        let i = ix.index(d.bytes.len());
                        match kind {
                            0 => d.bytes[i] = b,
                            1 => d.bytes.insert(i, b),
                            2 => {
                                d.bytes.remove(i);
                            }
                            _ => d.bytes.truncate(i),
                        }
                    }
                    d
                })
                .boxed(),
        )
    };
    drive(ctx, &info, &mut rep, docs, strat, ctx.n_random(1500, 100_000), &eval);

    // serde's in-memory value deserializers forward every hint to `deserialize_any`; whether such a source is
    // accepted at all is the deserializer's business, but whatever it yields is what the constructor returns
    // for the carried value - a second visitor path must not skip the guards
    if let (Some(dv), true) = (vt.de_value, ctx.case.is_none() || ctx.case.as_ref().is_some_and(|c| c.get("value_deserializer_kind").is_some())) {
        let vals: Vec<I> = match &ctx.case {
            Some(c) => c.get("value").and_then(I::from_json).into_iter().collect(),
            None => seed_values(vt, ctx, if ctx.quick() { 60 } else { 400 }),
        };
        let mut wts = Default::default();
        for v in &vals {
            for kind in 0..crate::glue::DE_VALUE_KINDS {
                if ctx.case.as_ref().is_some_and(|c| c["value_deserializer_kind"].as_u64() != Some(kind as u64)) {
                    continue;
                }
                let Ok(Some(got)) = no_panic(|| dv(v.clone(), kind)) else { continue };
                rep.evaluations += 1;
                let expected = no_panic(|| (vt.ctor)(v.clone()));
                let class = match (&got, &expected) {
                    (Ok(_), _) => "value-deserializer-accepts",
                    (Err(_), Ok(Err(_))) => "value-deserializer-rejects-invalid",
                    _ => "value-deserializer-rejects",
                };
                rep.class(class);
                if matches!(expected, Ok(Err(_))) {
                    rep.nontrivial += 1;
                }
                rep.sample(class, json!({"case": {"value": v.to_json(), "value_deserializer_kind": kind}}));
                if let (Ok(x), Ok(exp)) = (&got, &expected) {
                    let bad = match exp {
                        Ok(e) if e.same(x) => None,
                        Ok(e) => Some(("value-deserializer-yields-unsanitized-value", format!("Ok({})", e.to_json()))),
                        Err(e) => Some(("value-deserializer-accepts-invalid-value", format!("Err({})", e.show()))),
                    };
                    if let Some((w, e)) = bad {
                        rep.viol(
                            Viol {
                                prop: "C04".into(),
                                decl_id: vt.id.into(),
                                type_name: vt.type_name.into(),
                                decl: vt.decl.into(),
                                signature: format!("C04|{}|serde-value-deserializer|{w}|sans={}|vals={}", I::NAME, san_names(m), val_names(m)),
                                case: json!({"value": v.to_json(), "value_deserializer_kind": kind}),
                                expected: e,
                                actual: format!("Ok({})", x.to_json()),
                                shrunk: "enumeration-minimum".into(),
                            },
                            v.weight(),
                            &mut wts,
                        );
                    }
                }
            }
        }
    }
    rep
}

fn eval_key<I: Inputs>(vt: &'static Vt<I>, d: &Doc, sig: &dyn Fn(&Doc, &str) -> String) -> Outcome {
    let Some(dk) = vt.de_key else { return Outcome::ok(false, "no-ord") };
    // reference: keys decoded as the inner type (JSON / MessagePack are transparent for map keys of
    // the inner kinds we use; in RON the key is written as the newtype would be)
    let got = no_panic(|| dk(d.fmt, &d.bytes));
    match got {
        Err(p) => Outcome::fail(true, "map-key", sig(d, "panic"), "no panic".into(), format!("panic: {}", p.lines().next().unwrap_or(""))),
        Ok(Err(_)) => Outcome::ok(true, "map-key-rejected"),
        Ok(Ok(vals)) => {
            // whatever was accepted must be a fixed point of the constructor (hence valid and sanitized);
            // this oracle only applies when all sanitizers are idempotent
            if !vt.model.builtin_only() {
                return Outcome::ok(false, "map-key-accepted-nonidempotent-sanitizer");
            }
            let has_custom_san = vt.model.sans.iter().any(|s| matches!(s, San::With { .. }));
            for v in &vals {
                // chains with a custom function need not be idempotent as a chain (truncate, then uppercase):
                // the fixed-point oracle applies only where the reference model maps the value to itself
                if has_custom_san && !matches!(model::construct(vt.model, v.clone()), Ok(ref x) if x.same(v)) {
                    continue;
                }
                match no_panic(|| (vt.ctor)(v.clone())) {
                    Ok(Ok(x)) if x.same(v) => {}
                    Ok(Ok(x)) => return Outcome::fail(true, "map-key", sig(d, "yields-unsanitized-value"), format!("Ok({})", x.to_json()), format!("Ok({})", v.to_json())),
                    Ok(Err(e)) => return Outcome::fail(true, "map-key", sig(d, "yields-value-the-constructor-rejects"), format!("Err (constructor: {})", e.show()), format!("Ok({})", v.to_json())),
                    Err(_) => {}
                }
            }
            Outcome::ok(true, "map-key-accepted")
        }
    }
}

/// one case of C04 (also the body of the fuzz target)
pub fn eval_doc<I: Inputs>(vt: &'static Vt<I>, d: &Doc) -> Outcome {
    let (Some(de), Some(de_ref)) = (vt.de, vt.de_ref) else { return Outcome::ok(false, "irrelevant") };
    let m = vt.model;
    let sig = |d: &Doc, w: &str| format!("C04|{}|{}|{}|{w}|sans={}|vals={}", I::NAME, fmt_name(d.fmt), pos_name(d.pos), san_names(m), val_names(m));
    if d.pos == Pos::MapKey {
        // keys: the reference newtype has no Ord; checked by the constructor-fixed-point oracle
        return eval_key(vt, d, &sig);
    }
    let reference = no_panic(|| de_ref(d.fmt, d.pos, &d.bytes));
    let Ok(reference) = reference else { return Outcome::ok(false, "reference-decoder-panicked") };
    let got = no_panic(|| de(d.fmt, d.pos, &d.bytes));
    let nested = d.pos != Pos::Top;
    match reference {
        Err(_) => match got {
            Ok(Err(_)) => Outcome::ok(false, "undecodable"),
            Ok(Ok(v)) => Outcome::fail(nested, "undecodable", sig(d, "accepts-document-the-inner-type-rejects"), "Err".into(), format!("Ok({:?})", v.iter().map(|x| x.to_json()).collect::<Vec<_>>())),
            Err(p) => Outcome::fail(nested, "undecodable", sig(d, "panic"), "Err".into(), format!("panic: {}", p.lines().next().unwrap_or(""))),
        },
        Ok(raws) => {
            let mut expected: Result<Vec<I>, ErrR> = Ok(vec![]);
            let mut changed = false;
            for r in &raws {
                match no_panic(|| (vt.ctor)(r.clone())) {
                    Ok(Ok(v)) => {
                        changed |= !v.same(r);
                        if let Ok(e) = &mut expected {
                            e.push(v)
                        }
                    }
                    Ok(Err(e)) => {
                        expected = Err(e);
                        break;
                    }
                    Err(_) => return Outcome::ok(false, "ctor-panicked"),
                }
            }
            let class = match (&expected, changed) {
                (Err(_), _) => "decodes-constructor-rejects",
                (Ok(_), true) => "decodes-accepted-sanitized",
                (Ok(_), false) => "decodes-accepted",
            };
            let nontrivial = expected.is_err() || changed || nested;
            // history: an existing valid value, then deserialize_in_place with this document — afterwards the
            // value is what the constructor yields for the document, or (on failure) still a valid value
            if d.pos == Pos::Top {
                if let (Some(dip), Some(start)) = (vt.de_in_place, valid_start(vt)) {
                    if let Ok(Some((ok, after))) = no_panic(|| dip(start.clone(), d.fmt, &d.bytes)) {
                        // "untouched": equal to what the constructor stored for the start input; for idempotent
                        // chains a different but valid (fixed-point) value would also respect the guards
                        let stored = no_panic(|| (vt.ctor)(start.clone())).ok().and_then(|r| r.ok());
                        let untouched = stored.as_ref().map_or(false, |s| s.same(&after));
                        let has_custom_san = vt.model.sans.iter().any(|s| matches!(s, San::With { .. }));
                        let still_valid = untouched || (!has_custom_san && matches!(no_panic(|| (vt.ctor)(after.clone())), Ok(Ok(ref x)) if x.same(&after)));
                        let bad = match (&expected, ok) {
                            (Ok(e), true) => !(e.len() == 1 && e[0].same(&after)),
                            (Err(_), true) => true,
                            (_, false) => !still_valid,
                        };
                        if bad {
                            return Outcome::fail(
                                true,
                                class,
                                sig(d, "deserialize_in_place-leaves-or-yields-wrong-value"),
                                match &expected {
                                    Ok(e) => format!("Ok({:?})", e.iter().map(|x| x.to_json()).collect::<Vec<_>>()),
                                    Err(_) => format!("Err, existing value {} untouched or still valid", start.to_json()),
                                },
                                format!("succeeded={ok}, value afterwards {}", after.to_json()),
                            );
                        }
                    }
                }
            }
            match (expected, got) {
                (_, Err(p)) => Outcome::fail(nontrivial, class, sig(d, "panic"), "no panic".into(), format!("panic: {}", p.lines().next().unwrap_or(""))),
                (Err(e), Ok(Ok(v))) => Outcome::fail(nontrivial, class, sig(d, "yields-value-the-constructor-rejects"), format!("Err (constructor: {})", e.show()), format!("Ok({:?})", v.iter().map(|x| x.to_json()).collect::<Vec<_>>())),
                (Err(_), Ok(Err(_))) => Outcome::ok(nontrivial, class),
                (Ok(e), Ok(Ok(v))) => {
                    if e.len() == v.len() && e.iter().zip(v.iter()).all(|(a, b)| a.same(b)) {
                        Outcome::ok(nontrivial, class)
                    } else {
                        Outcome::fail(nontrivial, class, sig(d, "wrong-value"), format!("Ok({:?})", e.iter().map(|x| x.to_json()).collect::<Vec<_>>()), format!("Ok({:?})", v.iter().map(|x| x.to_json()).collect::<Vec<_>>()))
                    }
                }
                (Ok(e), Ok(Err(err))) => Outcome::fail(nontrivial, class, sig(d, "rejects-valid-document"), format!("Ok({:?})", e.iter().map(|x| x.to_json()).collect::<Vec<_>>()), format!("Err({err})")),
            }
        }
    }
}

thread_local! {
    static VALID_START: std::cell::RefCell<std::collections::HashMap<&'static str, Option<serde_json::Value>>> = Default::default();
}

/// some raw input the constructor accepts (cached per declaration)
pub fn valid_start<I: Inputs>(vt: &'static Vt<I>) -> Option<I> {
    let cached = VALID_START.with(|c| c.borrow().get(vt.id).cloned());
    let j = match cached {
        Some(j) => j,
        None => {
            let found = I::systematic(vt.model, Tier::Quick).into_iter().find(|v| matches!(no_panic(|| (vt.ctor)(v.clone())), Ok(Ok(_)))).map(|v| InnerTy::to_json(&v));
            VALID_START.with(|c| c.borrow_mut().insert(vt.id, found.clone()));
            found
        }
    };
    j.and_then(|j| I::from_json(&j))
}
