//! C07 — rejections report the first violated rule; custom errors are returned unchanged.

use crate::drive::*;
use crate::inputs::*;
use crate::model;
use crate::props::c01::{san_names, val_names};
use crate::report::*;
use crate::types::*;
use serde_json::json;

pub fn check<I: Inputs>(vt: &'static Vt<I>, ctx: &Ctx) -> DeclReport {
    let m = vt.model;
    if !m.has_validation() {
        return DeclReport::irrelevant(vt.id);
    }
    let mut rep = DeclReport::new(vt.id);
    let info = DeclInfo::of(vt);
    let eval = |raw: &I| -> Outcome {
        let sanitized = model::sanitize(m, raw.clone());
        let expected = model::validate(m, &sanitized);
        let violated = model::violated(m, &sanitized);
        // every entry point that hands the constructor's error type back: a rejection through any of them
        // names the first violated rule too, and never a rule the sanitized value satisfies
        let entries: Vec<(&str, Result<I, ErrR>)> = {
            let mut v: Vec<(&str, Result<I, ErrR>)> = vec![];
            if let Some(f) = vt.try_from {
                if let Ok(r) = no_panic(|| f(raw.clone())) {
                    v.push(("TryFrom", r));
                }
            }
            if I::KIND == Kind::Str {
                if let Some(f) = vt.try_from_str {
                    if let Ok(r) = no_panic(|| f(raw.as_str_())) {
                        v.push(("TryFrom<&str>", r));
                    }
                }
                if let Some(f) = vt.from_str_s {
                    if let Ok(r) = no_panic(|| f(raw.as_str_())) {
                        v.push(("FromStr", r));
                    }
                }
            } else if let (Some(f), Some(text)) = (vt.from_str, raw.display_()) {
                // only texts that the inner type parses back to this very value
                if matches!(I::parse_(&text), Some(Ok(ref back)) if back.same(raw)) {
                    match no_panic(|| f(&text)) {
                        Ok(FsOut::Ok(x)) => v.push(("FromStr", Ok(x))),
                        Ok(FsOut::Validate(e)) => v.push(("FromStr", Err(e))),
                        _ => {}
                    }
                }
            }
            v
        };
        let names = |e: &ErrR| match e {
            ErrR::Ix(i) => m.std_vals().get(*i).map(|v| v.kind_name()).unwrap_or("?").to_string(),
            ErrR::Custom(_) => "custom-payload".to_string(),
        };
        for (entry, r) in &entries {
            if let Err(got) = r {
                let bad = match &expected {
                    Ok(_) => Some(("reported-satisfied-rule", "none (valid)".to_string())),
                    Err(exp) if got != exp => Some((if matches!(got, ErrR::Ix(i) if !violated.contains(i)) { "reported-satisfied-rule" } else { "not-first-violated" }, names(exp))),
                    _ => None,
                };
                if let Some((what, expn)) = bad {
                    return Outcome::fail(
                        true,
                        "entry-point-error",
                        format!("C07|{}|via-{entry}|{what}|expected={expn}|reported={}|sans={}|vals={}", I::NAME, names(got), san_names(m), val_names(m)),
                        format!("{} [violated rules {:?}]", match &expected { Ok(_) => "Ok".to_string(), Err(e) => format!("Err({})", e.show()) }, violated),
                        format!("Err({}) from {entry}", got.show()),
                    );
                }
            }
        }
        let Err(exp) = expected else {
            return Outcome::ok(false, "accepted");
        };
        let multi = violated.len() >= 2;
        let class = if matches!(exp, ErrR::Custom(_)) { "custom-error" } else if multi { "multi-violation" } else { "single-violation" };
        let nontrivial = multi || matches!(exp, ErrR::Custom(_));
        match no_panic(|| (vt.ctor)(raw.clone())) {
            Ok(Err(got)) if got == exp => Outcome::ok(nontrivial, class).with_note(json!({"violated_rules": violated, "reported": got.show()})),
            Ok(Err(got)) => {
                let satisfied = match &got {
                    ErrR::Ix(i) => !violated.contains(i),
                    _ => false,
                };
                Outcome::fail(
                    nontrivial,
                    class,
                    format!(
                        "C07|{}|{}|expected={}|reported={}|sans={}|vals={}",
                        I::NAME,
                        if satisfied { "reported-satisfied-rule" } else { "not-first-violated" },
                        names(&exp),
                        names(&got),
                        san_names(m),
                        val_names(m)
                    ),
                    format!("Err({}) [violated rules {:?}]", exp.show(), violated),
                    format!("Err({})", got.show()),
                )
            }
            // Ok / panic are C01's verdicts, not an error-identity matter
            _ => Outcome::ok(nontrivial, "constructor-disagrees-on-verdict"),
        }
    };
    rep.exhaustive = I::KIND == Kind::Int && std::mem::size_of::<I>() <= 2;
    drive(ctx, &info, &mut rep, I::systematic(m, ctx.tier), Some(I::strategy(m)), ctx.n_random(1000, 50_000), &eval);
    rep
}
