//! C07 — rejections report the first violated rule; custom errors are returned unchanged.

use crate::drive::*;
use crate::inputs::*;
use crate::model;
use crate::props::c01::{san_names, val_names};
use crate::report::*;
use crate::types::*;
use serde_json::json;

pub fn check<I: Inputs>(vt: &'static Vt<I>, ctx: &Ctx) -> DeclReport {
    let m = vt.model;
    if !m.has_validation() {
        return DeclReport::irrelevant(vt.id);
    }
    let mut rep = DeclReport::new(vt.id);
    let info = DeclInfo::of(vt);
    let eval = |raw: &I| -> Outcome {
        let sanitized = model::sanitize(m, raw.clone());
        let expected = model::validate(m, &sanitized);
        let violated = model::violated(m, &sanitized);
        let Err(exp) = expected else {
            return Outcome::ok(false, "accepted");
        };
        let multi = violated.len() >= 2;
        let class = if matches!(exp, ErrR::Custom(_)) { "custom-error" } else if multi { "multi-violation" } else { "single-violation" };
        let nontrivial = multi || matches!(exp, ErrR::Custom(_));
        match no_panic(|| (vt.ctor)(raw.clone())) {
            Ok(Err(got)) if got == exp => Outcome::ok(nontrivial, class).with_note(json!({"violated_rules": violated, "reported": got.show()})),
            Ok(Err(got)) => {
                let names = |e: &ErrR| match e {
                    ErrR::Ix(i) => m.std_vals().get(*i).map(|v| v.kind_name()).unwrap_or("?").to_string(),
                    ErrR::Custom(_) => "custom-payload".to_string(),
                };
                let satisfied = match &got {
                    ErrR::Ix(i) => !violated.contains(i),
                    _ => false,
                };
                Outcome::fail(
                    nontrivial,
                    class,
                    format!(
                        "C07|{}|{}|expected={}|reported={}|sans={}|vals={}",
                        I::NAME,
                        if satisfied { "reported-satisfied-rule" } else { "not-first-violated" },
                        names(&exp),
                        names(&got),
                        san_names(m),
                        val_names(m)
                    ),
                    format!("Err({}) [violated rules {:?}]", exp.show(), violated),
                    format!("Err({})", got.show()),
                )
            }
            // Ok / panic are C01's verdicts, not an error-identity matter
            _ => Outcome::ok(nontrivial, "constructor-disagrees-on-verdict"),
        }
    };
    rep.exhaustive = I::KIND == Kind::Int && std::mem::size_of::<I>() <= 2;
    drive(ctx, &info, &mut rep, I::systematic(m, ctx.tier), Some(I::strategy(m)), ctx.n_random(1000, 50_000), &eval);
    rep
}
