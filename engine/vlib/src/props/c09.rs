//! C09 — derived Arbitrary is total and yields only valid values, for every byte input.
//! C14 — integer Arbitrary can produce every valid value (exhaustive byte enumeration).

use crate::drive::*;
use crate::inputs::*;
use crate::model;
use crate::props::c01::val_names;
use crate::report::*;
use crate::types::*;
use proptest::prelude::*;
use serde_json::json;
use std::collections::BTreeSet;

pub trait IntInner: Inputs + Copy + Ord {
    const MINV: Self;
    const MAXV: Self;
    const BYTES: usize;
    fn succ(self) -> Option<Self>;
    fn pred(self) -> Option<Self>;
    /// `self - lo` in the unsigned type of the same width (wrapping), widened
    fn offset_from(self, lo: Self) -> u128;
    /// `lo + off` (wrapping in the type's width)
    fn add_offset(lo: Self, off: u128) -> Self;
}
macro_rules! int_inner {
    ($(($t:ty, $u:ty)),*) => {$(
        impl IntInner for $t {
            const MINV: Self = <$t>::MIN;
            const MAXV: Self = <$t>::MAX;
            const BYTES: usize = std::mem::size_of::<$t>();
            fn succ(self) -> Option<Self> { self.checked_add(1) }
            fn pred(self) -> Option<Self> { self.checked_sub(1) }
            fn offset_from(self, lo: Self) -> u128 { (self as $u).wrapping_sub(lo as $u) as u128 }
            fn add_offset(lo: Self, off: u128) -> Self { (lo as $u).wrapping_add(off as $u) as $t }
        }
    )*};
}
int_inner!((u8, u8), (u16, u16), (u32, u32), (u64, u64), (u128, u128), (usize, usize), (i8, u8), (i16, u16), (i32, u32), (i64, u64), (i128, u128), (isize, usize));

/// inclusive valid range of an integer model without predicates (None = empty)
pub fn int_range<I: IntInner>(m: &Model<I>) -> Option<(I, I)> {
    let mut lo = I::MINV;
    let mut hi = I::MAXV;
    for v in m.std_vals() {
        match v {
            Val::Greater(b) => lo = lo.max(b.succ()?),
            Val::GreaterEq(b) => lo = lo.max(*b),
            Val::Less(b) => hi = hi.min(b.pred()?),
            Val::LessEq(b) => hi = hi.min(*b),
            _ => {}
        }
    }
    if lo <= hi {
        Some((lo, hi))
    } else {
        None
    }
}

/// is the valid set of the model known to be non-empty? (C09 quantifies over those only)
pub fn valid_set_nonempty<I: Inputs>(vt: &Vt<I>, ctx: &Ctx) -> bool {
    let m = vt.model;
    // search: systematic inputs contain every bound neighbourhood; any accepted value proves non-emptiness
    I::systematic(m, ctx.tier).into_iter().any(|v| model::construct(m, v).is_ok())
}

pub fn byte_inputs(tier: Tier) -> Vec<Bytes> {
    let mut v = vec![Bytes(vec![])];
    for a in 0..=255u8 {
        v.push(Bytes(vec![a]));
    }
    for a in 0..=255u8 {
        for b in 0..=255u8 {
            v.push(Bytes(vec![a, b]));
        }
    }
    let maxlen = 64;
    for n in 3..=maxlen {
        v.push(Bytes(vec![0x00; n]));
        v.push(Bytes(vec![0xFF; n]));
        v.push(Bytes(vec![0x7F; n]));
        v.push(Bytes(vec![0x80; n]));
        v.push(Bytes((0..n).map(|i| if i % 2 == 0 { 0xAA } else { 0x55 }).collect()));
        v.push(Bytes((0..n).map(|i| i as u8).collect()));
        v.push(Bytes(vec![0x20; n]));
        if n <= 16 || tier == Tier::Thorough {
            for i in 0..n {
                let mut b = vec![0u8; n];
                b[i] = 0xFF;
                v.push(Bytes(b));
                let mut b = vec![0xFFu8; n];
                b[i] = 0x00;
                v.push(Bytes(b));
            }
        }
    }
    // special floating-point words (arbitrary reads f32/f64 as little-endian bit patterns): infinities, NaNs,
    // extremes, subnormals, zeros - alone, doubled, and followed by a plain word
    {
        let f32s = [f32::INFINITY, f32::NEG_INFINITY, f32::NAN, -f32::NAN, f32::MAX, f32::MIN, f32::MIN_POSITIVE, f32::from_bits(1), -0.0, 1.0, -1.0, f32::from_bits(0x7f80_0001), f32::from_bits(0x7f7f_fffe)];
        let f64s = [f64::INFINITY, f64::NEG_INFINITY, f64::NAN, -f64::NAN, f64::MAX, f64::MIN, f64::MIN_POSITIVE, f64::from_bits(1), -0.0, 1.0, -1.0, f64::from_bits(0x7ff0_0000_0000_0001), f64::from_bits(0x7fef_ffff_ffff_fffe)];
        let mut words: Vec<Vec<u8>> = vec![];
        for x in f32s {
            words.push(x.to_bits().to_le_bytes().to_vec());
            words.push(x.to_bits().to_be_bytes().to_vec());
        }
        for x in f64s {
            words.push(x.to_bits().to_le_bytes().to_vec());
            words.push(x.to_bits().to_be_bytes().to_vec());
        }
        for w in &words {
            v.push(Bytes(w.clone()));
            v.push(Bytes([w.clone(), w.clone()].concat()));
            v.push(Bytes([w.clone(), vec![0x3f, 0x80, 0, 0, 0, 0, 0x80, 0x3f]].concat()));
        }
    }
    // little-endian u32 encodings of hostile code points in every char slot (arbitrary reads chars as u32)
    for c in SIGMA.iter().chain(['\u{10FFFF}', '\u{D7FF}', '\u{E000}', 'ß', 'ŉ', 'İ', 'ǰ', 'ΐ', 'ﬃ'].iter()) {
        let w = (*c as u32).to_le_bytes();
        for lenbyte in [0u8, 1, 2, 3, 5, 16, 255] {
            for reps in 1..=4 {
                let mut b = vec![lenbyte];
                for _ in 0..reps {
                    b.extend(w);
                }
                v.push(Bytes(b.clone()));
                b.extend([0x20, 0, 0, 0]);
                v.push(Bytes(b.clone()));
                let mut lead = vec![lenbyte, 0x20, 0, 0, 0];
                lead.extend(&b[1..]);
                v.push(Bytes(lead));
            }
        }
    }
    v
}

/// Structured facts about the declaration that identify the generator mechanism in play
/// (DESIGN §7): signatures are built from these, not from concrete numbers.
pub fn mechanism_facts<I: Inputs>(m: &Model<I>) -> String {
    let vals = m.std_vals();
    match I::KIND {
        Kind::Int => {
            let s = if m.sans.is_empty() {
                "none"
            } else if m.builtin_only() {
                "idempotent"
            } else {
                "nonidempotent"
            };
            format!("sanitizer={s}")
        }
        Kind::Float => {
            let mut lower = "-";
            let mut upper = "-";
            let mut finite = 0;
            for v in vals {
                match v {
                    Val::Greater(_) => lower = "g",
                    Val::GreaterEq(_) => lower = "ge",
                    Val::Less(_) => upper = "l",
                    Val::LessEq(_) => upper = "le",
                    Val::Finite => finite = 1,
                    _ => {}
                }
            }
            // does `upper - lower` overflow in the float type? (the generator scales [0,1] by that span)
            let mut lo: Option<f64> = None;
            let mut hi: Option<f64> = None;
            for v in vals {
                match v {
                    Val::Greater(b) | Val::GreaterEq(b) => lo = b.to_f64_(),
                    Val::Less(b) | Val::LessEq(b) => hi = b.to_f64_(),
                    _ => {}
                }
            }
            let span_overflow = match (lo, hi) {
                (Some(l), Some(h)) => {
                    if I::NAME == "f32" {
                        ((h as f32) - (l as f32)).is_infinite()
                    } else {
                        (h - l).is_infinite()
                    }
                }
                _ => false,
            } as u8;
            // with one bound the generator adds |basic| to a lower bound (subtracts it from an upper one): can that
            // sum leave the finite range at all? Only for a positive lower / negative upper bound of at least
            // half an ulp of MAX; for any other declaration a non-finite result has another cause.
            let half_ulp_max = if I::NAME == "f32" { (f32::MAX as f64) * 2f64.powi(-25) } else { f64::MAX * 2f64.powi(-54) };
            let one_sided_overflow_possible = match (lo, hi) {
                (Some(l), None) => l >= half_ulp_max,
                (None, Some(h)) => h <= -half_ulp_max,
                _ => false,
            } as u8;
            format!("lower={lower}|upper={upper}|finite={finite}|span_overflow={span_overflow}|one_sided_overflow_possible={one_sided_overflow_possible}")
        }
        Kind::Str => {
            let case = m.sans.iter().any(|s| matches!(s, San::Lower | San::Upper)) as u8;
            let trim = m.sans.iter().any(|s| matches!(s, San::Trim)) as u8;
            let custom = m.sans.iter().any(|s| matches!(s, San::With { .. })) as u8;
            let _ = vals;
            format!("case_sanitizer={case}|trim={trim}|custom_sanitizer={custom}")
        }
        Kind::Other => "-".to_string(),
    }
}

pub fn check<I: Inputs>(vt: &'static Vt<I>, ctx: &Ctx) -> DeclReport {
    let Some(arb) = vt.arbitrary else { return DeclReport::irrelevant(vt.id) };
    let mut rep = DeclReport::new(vt.id);
    let info = DeclInfo::of(vt);
    let m = vt.model;
    if !valid_set_nonempty(vt, ctx) {
        rep.relevant = false;
        rep.notes.push("valid set not shown non-empty: excluded from C09".into());
        return rep;
    }
    let idem = m.builtin_only();
    let facts = mechanism_facts(m);
    let sig = |w: &str, extra: &str| format!("C09|{}|{w}|{facts}{extra}", I::NAME);
    let eval = |b: &Bytes| -> Outcome { eval_bytes(vt, b) };
    // termination probe: a handful of inputs (empty, saturating, whitespace-only, long) run on a helper thread
    // with a generous time-out; a generator that does not return is a violation of "terminates" and the
    // declaration is skipped (the stuck thread is leaked) instead of hanging the whole check
    if ctx.case.is_none() {
        let mut probes: Vec<Vec<u8>> = vec![vec![], vec![0xFF; 4], vec![0xFF; 64], vec![0x20; 64], vec![0; 64], vec![0x7F; 33]];
        probes.push([0x20u8, 0, 0, 0].repeat(24));
        probes.push([0x85u8, 0, 0, 0].repeat(24));
        probes.push((0..=255u8).collect());
        for p in probes {
            let (tx, rx) = std::sync::mpsc::channel();
            let pc = p.clone();
            std::thread::spawn(move || {
                let r = no_panic(|| arb(&pc).is_ok());
                let _ = tx.send(r.is_ok());
            });
            rep.evaluations += 1;
            if rx.recv_timeout(std::time::Duration::from_secs(10)).is_err() {
                let mut w = Default::default();
                rep.viol(
                    Viol {
                        prop: "C09".into(),
                        decl_id: vt.id.into(),
                        type_name: vt.type_name.into(),
                        decl: vt.decl.into(),
                        signature: format!("C09|{}|does-not-terminate|{}", I::NAME, mechanism_facts(m)),
                        case: Bytes(p.clone()).to_json(),
                        expected: "arbitrary() returns".into(),
                        actual: "no result after 10 s".into(),
                        shrunk: "none".into(),
                    },
                    0,
                    &mut w,
                );
                rep.notes.push("generator did not terminate on a probe input; declaration skipped".into());
                return rep;
            }
        }
    }
    rep.exhaustive = true; // all byte strings of length <= 2
    let strat = prop_oneof![proptest::collection::vec(any::<u8>(), 0..16), proptest::collection::vec(any::<u8>(), 0..96), proptest::collection::vec(prop_oneof![Just(0xFFu8), Just(0u8), Just(0x20u8), any::<u8>()], 0..40)].prop_map(Bytes).boxed();
    drive(ctx, &info, &mut rep, byte_inputs(ctx.tier), Some(strat), ctx.n_random(3000, 300_000), &eval);
    rep
}

/// Valid ranges too wide to enumerate: a spread of valid values (both ends, the middle, every byte-width
/// threshold of the offset) must each be produced by some input. The inputs tried for a value are the
/// encodings of its offset from the lower end that a range generator over `lo..=hi` can consume (big- and
/// little-endian, minimal and full width) - what `arbitrary::Unstructured::int_in_range` inverts to - and
/// the value's own bytes.
fn wide_range_probe<I: IntInner>(vt: &'static Vt<I>, arb: fn(&[u8]) -> Result<I, String>, lo: I, hi: I) -> DeclReport {
    let m = vt.model;
    let mut rep = DeclReport::new(vt.id);
    let delta = hi.offset_from(lo);
    // bytes a range generator consumes for this span
    let n = (((128 - delta.leading_zeros()) as usize + 7) / 8).clamp(1, I::BYTES);
    let mut offs: Vec<u128> = vec![0, 1, 2, 255, 256, 257, 65535, 65536, 65537, delta / 2, delta / 2 + 1, delta / 3, delta.saturating_sub(2), delta.saturating_sub(1), delta];
    for k in 1..I::BYTES {
        let t = 1u128 << (8 * k as u32);
        offs.extend([t - 1, t, t + 1]);
        // around the sign boundary of the same-width signed type
        offs.extend([(t << 7 >> 8).wrapping_sub(1), t << 7 >> 8]);
    }
    if I::BYTES < 16 {
        let half = 1u128 << (8 * I::BYTES as u32 - 1);
        offs.extend([half - 1, half, half + 1]);
    } else {
        offs.extend([(1u128 << 127) - 1, 1u128 << 127, (1u128 << 127) + 1]);
    }
    offs.retain(|o| *o <= delta);
    offs.sort();
    offs.dedup();
    let mut missing: Vec<I> = vec![];
    let mut panics = 0u64;
    for o in &offs {
        let target = I::add_offset(lo, *o);
        let be = o.to_be_bytes();
        let le = o.to_le_bytes();
        let tb = target.key();
        let candidates: Vec<Vec<u8>> = vec![be[16 - n..].to_vec(), be[16 - I::BYTES..].to_vec(), le[..n].to_vec(), le[..I::BYTES].to_vec(), tb.clone(), tb.iter().rev().copied().collect()];
        let mut hit = false;
        for c in &candidates {
            rep.evaluations += 1;
            match no_panic(|| arb(c)) {
                Ok(Ok(v)) if v == target => {
                    hit = true;
                    break;
                }
                Err(_) => panics += 1,
                _ => {}
            }
        }
        if !hit {
            missing.push(target);
        }
    }
    rep.nontrivial = rep.evaluations;
    rep.class("decl-wide-range-probe");
    rep.class_n("wide-range-probe-targets", offs.len() as u64);
    rep.sample("decl-wide-range-probe", json!({"case": {"valid_range": [lo.to_json(), hi.to_json()], "probed_values": offs.len(), "inputs": "encodings of the offset from the lower end (BE/LE, minimal/full width) and of the value"}}));
    if !missing.is_empty() {
        let mut w = Default::default();
        rep.viol(
            Viol {
                prop: "C14".into(),
                decl_id: vt.id.into(),
                type_name: vt.type_name.into(),
                decl: vt.decl.into(),
                signature: format!("C14|{}|valid-values-never-produced|vals={}|wide-range-probe|panics={}", I::NAME, val_names(m), if panics > 0 { "some" } else { "none" }),
                case: json!({"missing_count": missing.len(), "probed": offs.len(), "first_missing": missing[0].to_json(), "last_missing": missing[missing.len() - 1].to_json(), "valid_range": [lo.to_json(), hi.to_json()]}),
                expected: format!("each probed value of {}..={} produced by the input that encodes its offset from the lower end", lo.to_json(), hi.to_json()),
                actual: format!("{} of {} probed valid values not produced (e.g. {})", missing.len(), offs.len(), missing[0].to_json()),
                shrunk: "none".into(),
            },
            0,
            &mut w,
        );
    }
    rep
}

pub fn check_c14<I: IntInner>(vt: &'static Vt<I>, ctx: &Ctx) -> DeclReport {
    let Some(arb) = vt.arbitrary else { return DeclReport::irrelevant(vt.id) };
    let m = vt.model;
    if let Some(h) = vt.arb_history {
        // the bound expression reads run-time state: the generator's range has to follow it
        let mut rep = DeclReport::new(vt.id);
        let mut prefix: Vec<String> = vec![];
        for (label, ok) in h() {
            prefix.push(label.clone());
            rep.evaluations += 256 * 3;
            rep.nontrivial += 256 * 3;
            rep.class("generator-range-after-bound-change");
            rep.sample("generator-range-after-bound-change", json!({"case": {"arb_history": prefix}, "range_matches_constructor": ok}));
            if !ok {
                let mut w = Default::default();
                rep.viol(
                    Viol {
                        prop: "C14".into(),
                        decl_id: vt.id.into(),
                        type_name: vt.type_name.into(),
                        decl: vt.decl.into(),
                        signature: format!("C14|{}|generator-range-does-not-follow-the-bound-expression|vals={}", I::NAME, val_names(m)),
                        case: json!({"arb_history": prefix}),
                        expected: "after the limit changed, exactly the values the constructor accepts now".into(),
                        actual: format!("another set at {label}"),
                        shrunk: "none".into(),
                    },
                    0,
                    &mut w,
                );
                break;
            }
        }
        let _ = ctx;
        return rep;
    }
    // identity sanitizers only: the property is about the generator's range
    if !m.sans.is_empty() || matches!(m.vals, Vals::Custom { .. }) || m.std_vals().iter().any(|v| matches!(v, Val::Predicate { .. })) {
        return DeclReport::irrelevant(vt.id);
    }
    let Some((lo, hi)) = int_range(m) else { return DeclReport::irrelevant(vt.id) };
    // enumerate the valid set; beyond 2^16 elements probe a spread of values instead
    let mut valid: BTreeSet<I> = BTreeSet::new();
    let mut x = lo;
    loop {
        valid.insert(x);
        if valid.len() > 65536 {
            return wide_range_probe(vt, arb, lo, hi);
        }
        if x == hi {
            break;
        }
        x = x.succ().unwrap();
    }
    let mut rep = DeclReport::new(vt.id);
    rep.exhaustive = true;
    // all byte strings of the lengths int_in_range can consume for this span: 0, 1 and 2 bytes
    let mut produced: BTreeSet<I> = BTreeSet::new();
    let mut panics = 0u64;
    let mut feed = |b: &[u8]| match no_panic(|| arb(b)) {
        Ok(Ok(v)) => {
            produced.insert(v);
        }
        Ok(Err(_)) => {}
        Err(_) => panics += 1,
    };
    if let Some(case) = &ctx.case {
        let _ = case;
    }
    feed(&[]);
    for a in 0..=255u8 {
        feed(&[a]);
    }
    if valid.len() > 256 || true {
        for a in 0..=255u8 {
            for b in 0..=255u8 {
                feed(&[a, b]);
            }
        }
    }
    rep.evaluations = 1 + 256 + 65536;
    let expr_bound = vt.tags.iter().any(|t| t.contains("expr") || t.contains("spelling"));
    let at_extreme = lo == I::MINV || hi == I::MAXV;
    rep.nontrivial = if expr_bound || at_extreme { rep.evaluations } else { 0 };
    rep.class(if expr_bound { "decl-expression-bound" } else if at_extreme { "decl-bound-at-type-extreme" } else { "decl-literal-bound" });
    rep.class_n("valid-set-size", valid.len() as u64);
    rep.sample(
        if expr_bound { "decl-expression-bound" } else { "decl-literal-bound" },
        json!({"case": {"valid_range": [lo.to_json(), hi.to_json()], "valid_set_size": valid.len(), "produced_set_size": produced.len(), "inputs": "all byte strings of length 0, 1 and 2"}}),
    );
    let missing: Vec<I> = valid.difference(&produced).copied().collect();
    if !missing.is_empty() {
        let first = missing[0];
        let kinds = val_names(m);
        let class = vt.tags.iter().find(|t| t.starts_with("int-narrow-expr:") || t.starts_with("int-spelling:")).map(|t| t.split(':').nth(1).unwrap_or("")).unwrap_or("literal");
        let mut w = Default::default();
        rep.viol(
            Viol {
                prop: "C14".into(),
                decl_id: vt.id.into(),
                type_name: vt.type_name.into(),
                decl: vt.decl.into(),
                signature: format!("C14|{}|valid-values-never-produced|vals={kinds}|bound-spelling={class}|panics={}", I::NAME, if panics > 0 { "some" } else { "none" }),
                case: json!({"missing_count": missing.len(), "first_missing": first.to_json(), "last_missing": missing[missing.len() - 1].to_json(), "valid_range": [lo.to_json(), hi.to_json()]}),
                expected: format!("every value of {}..={} produced by some byte input", lo.to_json(), hi.to_json()),
                actual: format!("{} of {} valid values never produced (e.g. {})", missing.len(), valid.len(), first.to_json()),
                shrunk: "enumeration-minimum".into(),
            },
            0,
            &mut w,
        );
    }
    rep
}

/// one case of C09 (also the body of the fuzz target)
pub fn eval_bytes<I: Inputs>(vt: &'static Vt<I>, b: &Bytes) -> Outcome {
    let Some(arb) = vt.arbitrary else { return Outcome::ok(false, "irrelevant") };
    let m = vt.model;
    // "the returned value is sanitized" can be asserted as v == sanitize(v) only for chains of built-in
    // sanitizers (individually idempotent custom functions do not make the chain idempotent)
    let idem = m.sans.iter().all(|s| !matches!(s, San::With { .. }));
    let facts = mechanism_facts(m);
    let sig = |w: &str, extra: &str| format!("C09|{}|{w}|{facts}{extra}", I::NAME);
    let special = b.0.is_empty() || b.0.iter().all(|x| *x == 0xFF) || b.0.iter().all(|x| *x == 0) || b.0.len() > 2;
    match no_panic(|| arb(&b.0)) {
        Err(p) => {
            let first = p.lines().find(|l| !l.trim().is_empty()).unwrap_or("").to_string();
            let kind = if first.contains("generated an invalid value") {
                "generated-invalid-value"
            } else if first.contains("non-empty range") {
                "empty-int_in_range"
            } else if first.contains("overflow") {
                "arithmetic-overflow"
            } else {
                "other-panic"
            };
            // which rule did the generated value violate? (parsed from the generator's own panic text)
            let extra = p
                .split(|c: char| !c.is_alphanumeric())
                .find(|w| w.ends_with("Violated"))
                .map(|w| format!("|error={w}"))
                .unwrap_or_default();
            Outcome::fail(true, "panicked", sig(&format!("panic:{kind}"), &extra), "Ok(valid value) or Err(arbitrary::Error)".into(), format!("panic: {}", p.lines().filter(|l| !l.trim().is_empty()).take(3).collect::<Vec<_>>().join(" / ")))
        }
        Ok(Err(_)) => Outcome::ok(special, "arbitrary-error"),
        Ok(Ok(v)) => {
            let near = v.near_bound(m);
            let class = if near { "ok-near-bound" } else { "ok" };
            if let Err(e) = model::validate(m, &v) {
                return Outcome::fail(true, class, sig("invalid-value-returned", ""), "value satisfying all validators".into(), format!("Ok({}) violates rule {}", v.to_json(), e.show()));
            }
            if idem && !model::sanitize(m, v.clone()).same(&v) {
                return Outcome::fail(true, class, sig("unsanitized-value-returned", ""), "sanitized value".into(), format!("Ok({})", v.to_json()));
            }
            Outcome::ok(special || near, class)
        }
    }
}
