//! C03 — TryFrom / From / string FromStr / Default agree with the canonical constructor.

use crate::drive::*;
use crate::inputs::*;
use crate::model;
use crate::props::c01::{san_names, show_res, val_names};
use crate::report::*;
use crate::types::*;
use serde_json::json;

fn same_res<I: InnerTy>(a: &Result<I, ErrR>, b: &Result<I, ErrR>) -> bool {
    match (a, b) {
        (Ok(x), Ok(y)) => x.same(y),
        (Err(x), Err(y)) => x == y,
        _ => false,
    }
}

pub fn check<I: Inputs>(vt: &'static Vt<I>, ctx: &Ctx) -> DeclReport {
    let relevant = vt.try_from.is_some()
        || vt.try_from_str.is_some()
        || vt.from.is_some()
        || vt.from_str_ref.is_some()
        || vt.from_str_s.is_some()
        || vt.default.is_some();
    if !relevant {
        return DeclReport::irrelevant(vt.id);
    }
    let mut rep = DeclReport::new(vt.id);
    let info = DeclInfo::of(vt);
    let m = vt.model;
    let sig = |entry: &str, w: &str| format!("C03|{}|{entry}|{w}|sans={}|vals={}", I::NAME, san_names(m), val_names(m));

    let eval = |raw: &I| -> Outcome {
        let sanitized = model::sanitize(m, raw.clone());
        let rejected = model::validate(m, &sanitized).is_err();
        let nontrivial = rejected || !sanitized.same(raw);
        let class = if rejected { "rejected" } else if !sanitized.same(raw) { "sanitized" } else { "plain" };
        let base = no_panic(|| (vt.ctor)(raw.clone()));
        let Ok(base) = base else {
            // a panicking constructor is C01's business; nothing to compare with
            return Outcome::ok(nontrivial, "ctor-panicked");
        };
        let mut cmp = |entry: &str, got: Result<Result<I, ErrR>, String>| -> Option<Outcome> {
            match got {
                Err(p) => Some(Outcome::fail(nontrivial, class, sig(entry, "panic"), show_res(&base), format!("panic: {}", p.lines().next().unwrap_or("")))),
                Ok(g) if !same_res(&g, &base) => Some(Outcome::fail(nontrivial, class, sig(entry, "differs-from-constructor"), show_res(&base), show_res(&g))),
                _ => None,
            }
        };
        if let Some(f) = vt.try_from {
            if let Some(o) = cmp("TryFrom", no_panic(|| f(raw.clone()))) {
                return o;
            }
        }
        if let Some(f) = vt.from {
            if let Some(o) = cmp("From", no_panic(|| Ok(f(raw.clone())))) {
                return o;
            }
        }
        if I::KIND == Kind::Str {
            let s = raw.as_str_();
            if let Some(f) = vt.try_from_str {
                if let Some(o) = cmp("TryFrom<&str>", no_panic(|| f(s))) {
                    return o;
                }
            }
            if let Some(f) = vt.from_str_ref {
                if let Some(o) = cmp("From<&str>", no_panic(|| Ok(f(s)))) {
                    return o;
                }
            }
            if let Some(f) = vt.from_str_s {
                if let Some(o) = cmp("FromStr", no_panic(|| f(s))) {
                    return o;
                }
            }
        }
        Outcome::ok(nontrivial, class)
    };
    let has_conv = vt.try_from.is_some() || vt.try_from_str.is_some() || vt.from.is_some() || vt.from_str_ref.is_some() || vt.from_str_s.is_some();
    if has_conv {
        rep.exhaustive = I::KIND == Kind::Int && std::mem::size_of::<I>() <= 2;
        drive(ctx, &info, &mut rep, I::systematic(m, ctx.tier), Some(I::strategy(m)), ctx.n_random(1000, 50_000), &eval);
    }

    // Default: equals the constructor applied to the declared default expression; panics rather than
    // returning a value the constructor rejects
    if ctx.case.is_none() || ctx.case.as_ref().and_then(|c| c.get("default")).is_some() {
        if let (Some(df), Some(raw_fn)) = (vt.default, m.default_raw) {
            let raw = raw_fn();
            let expected = no_panic(|| (vt.ctor)(raw.clone()));
            let model_expected = model::construct(m, raw.clone());
            // `Default` is called repeatedly: every call, not only the first, has to agree with the constructor
            let mut got = no_panic(df);
            for _ in 0..3 {
                let again = no_panic(df);
                let same = match (&got, &again) {
                    (Ok(a), Ok(b)) => a.same(b),
                    (Err(_), Err(_)) => true,
                    _ => false,
                };
                rep.evaluations += 1;
                if !same {
                    rep.class("default-call-history-differs");
                    // keep the call that disagrees with the constructor, if any
                    let first_ok = matches!((&expected, &got), (Ok(Ok(e)), Ok(g)) if e.same(g)) || matches!((&expected, &got), (Ok(Err(_)), Err(_)));
                    if first_ok {
                        got = again;
                    }
                    break;
                }
            }
            rep.evaluations += 1;
            rep.nontrivial += 1;
            let class = if model_expected.is_ok() { "default-valid" } else { "default-invalid" };
            rep.class(class);
            rep.sample(class, json!({"case": {"default": raw.to_json()}, "default_result": format!("{:?}", got.as_ref().map(|v| v.to_json()).map_err(|e| e.lines().nth(1).unwrap_or("").to_string()))}));
            let bad = match (&expected, &got) {
                (Ok(Ok(e)), Ok(g)) => (!e.same(g)).then(|| ("differs-from-constructor", show_res(&Ok(e.clone())), format!("Ok({})", g.to_json()))),
                (Ok(Ok(e)), Err(p)) => Some(("panics-on-valid-default", show_res(&Ok(e.clone())), format!("panic: {}", p.lines().next().unwrap_or("")))),
                (Ok(Err(e)), Ok(g)) => Some(("returns-rejected-value", format!("panic (constructor says Err({}))", e.show()), format!("Ok({})", g.to_json()))),
                (Ok(Err(_)), Err(_)) => None,
                (Err(_), _) => None,
            };
            if let Some((w, e, a)) = bad {
                let mut wts = Default::default();
                rep.viol(
                    Viol {
                        prop: "C03".into(),
                        decl_id: vt.id.into(),
                        type_name: vt.type_name.into(),
                        decl: vt.decl.into(),
                        signature: sig("Default", w),
                        case: json!({"default": raw.to_json()}),
                        expected: e,
                        actual: a,
                        shrunk: "none".into(),
                    },
                    0,
                    &mut wts,
                );
            }
        }
    }
    // generic declarations: Default at two instantiations, interleaved
    if ctx.case.is_none() || ctx.case.as_ref().and_then(|c| c.get("default_history")).is_some() {
        if let Some(h) = vt.default_history {
            let hist = h();
            let mut prefix: Vec<String> = vec![];
            for (label, ctor_ok, got) in &hist {
                prefix.push(label.clone());
                rep.evaluations += 1;
                rep.nontrivial += 1;
                let class = if *ctor_ok { "default-history-valid-step" } else { "default-history-invalid-step" };
                rep.class(class);
                rep.sample(class, json!({"case": {"default_history": prefix}, "constructor_accepts": ctor_ok, "default_result": format!("{got:?}")}));
                let bad = match (ctor_ok, got) {
                    (true, Some(true)) | (false, None) => None,
                    (true, Some(false)) => Some(("differs-from-constructor", "constructor result", "another value")),
                    (true, None) => Some(("panics-on-valid-default", "constructor result", "panic")),
                    (false, Some(_)) => Some(("returns-rejected-value", "panic (constructor rejects)", "a value")),
                };
                if let Some((w, e, a)) = bad {
                    let mut wts = Default::default();
                    rep.viol(
                        Viol {
                            prop: "C03".into(),
                            decl_id: vt.id.into(),
                            type_name: vt.type_name.into(),
                            decl: vt.decl.into(),
                            signature: sig("Default-history", w),
                            case: json!({"default_history": prefix}),
                            expected: e.into(),
                            actual: format!("{a} at instantiation {label} after {:?}", &prefix[..prefix.len() - 1]),
                            shrunk: "none".into(),
                        },
                        0,
                        &mut wts,
                    );
                    break;
                }
            }
        }
    }
    rep
}
