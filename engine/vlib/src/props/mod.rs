pub mod c01;
