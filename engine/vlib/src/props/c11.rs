//! C11 — stored values are canonical: re-entering any entry point reproduces them.
//! Operation sequences (`vec(op, 0..=4)`) interpreted against the live value; the
//! invariant "value unchanged" is checked after every step.

use crate::drive::*;
use crate::glue::{dec, enc};
use crate::inputs::*;
use crate::props::c01::{san_names, val_names};
use crate::report::*;
use crate::types::*;
use proptest::prelude::*;
use serde_json::json;

#[derive(Clone, Copy, Debug, PartialEq, Eq)]
pub enum Op {
    TryNew,
    TryFrom,
    DisplayFromStr,
    SerDeJson,
    SerDeRon,
    SerDeMsgPack,
}
const OPS: [Op; 6] = [Op::TryNew, Op::TryFrom, Op::DisplayFromStr, Op::SerDeJson, Op::SerDeRon, Op::SerDeMsgPack];

/// entry point through which the starting value is obtained ("every obtainable value")
#[derive(Clone, Copy, Debug, PartialEq, Eq)]
pub enum Entry {
    TryNew,
    TryFromOwned,
    TryFromStr,
    FromStr,
    FromRefStr,
    DeJson,
    DeMsgPack,
    /// the value an existing valid newtype holds after `deserialize_in_place` with the start input's document
    /// (whether that call succeeded or failed)
    DeInPlace,
    /// `Arbitrary::arbitrary` on the bytes of the start value
    Arbitrary,
    /// serde's in-memory value deserializers (`glue::de_value`): the primitive's own, and a one-element sequence
    DeValue,
    DeValueSeq,
    /// `Default::default()` (the start value is not used)
    Default,
}
const ENTRIES: [Entry; 12] = [
    Entry::TryNew,
    Entry::TryFromOwned,
    Entry::TryFromStr,
    Entry::FromStr,
    Entry::FromRefStr,
    Entry::DeJson,
    Entry::DeMsgPack,
    Entry::DeInPlace,
    Entry::Arbitrary,
    Entry::DeValue,
    Entry::DeValueSeq,
    Entry::Default,
];

#[derive(Clone, Debug)]
pub struct Chain<I> {
    pub start: I,
    pub entry: Entry,
    pub ops: Vec<Op>,
}
impl<I: InnerTy> Case for Chain<I> {
    fn key(&self) -> Vec<u8> {
        let mut k = self.start.key();
        k.push(0xFD);
        k.push(self.entry as u8);
        k.extend(self.ops.iter().map(|o| *o as u8));
        k
    }
    fn to_json(&self) -> serde_json::Value {
        json!({"start": self.start.to_json(), "entry": format!("{:?}", self.entry), "ops": self.ops.iter().map(|o| format!("{o:?}")).collect::<Vec<_>>()})
    }
    fn from_json(v: &serde_json::Value) -> Option<Self> {
        let ops = v.get("ops")?.as_array()?.iter().filter_map(|o| OPS.iter().copied().find(|x| format!("{x:?}") == o.as_str().unwrap_or(""))).collect();
        let entry = v.get("entry").and_then(|e| e.as_str()).and_then(|e| ENTRIES.iter().copied().find(|x| format!("{x:?}") == e)).unwrap_or(Entry::TryNew);
        Some(Chain { start: I::from_json(v.get("start")?)?, entry, ops })
    }
    fn weight(&self) -> u128 {
        self.start.weight().saturating_add((self.ops.len() as u128) << 100)
    }
}

pub fn check<I: Inputs>(vt: &'static Vt<I>, ctx: &Ctx) -> DeclReport {
    let m = vt.model;
    if !m.builtin_only() {
        return DeclReport::irrelevant(vt.id);
    }
    let mut rep = DeclReport::new(vt.id);
    let info = DeclInfo::of(vt);
    let has_custom_san = m.sans.iter().any(|s| matches!(s, San::With { .. }));
    let avail: Vec<Op> = OPS
        .iter()
        .copied()
        .filter(|o| match o {
            Op::TryNew => true,
            Op::TryFrom => vt.try_from.is_some() || vt.from.is_some(),
            Op::DisplayFromStr => vt.display.is_some() && (vt.from_str.is_some() || vt.from_str_s.is_some()),
            _ => vt.ser.is_some() && vt.de.is_some(),
        })
        .collect();
    let sig = |o: Op, w: &str| format!("C11|{}|{o:?}|{w}|sans={}|vals={}", I::NAME, san_names(m), val_names(m));
    let eval = |c: &Chain<I>| -> Outcome {
        // obtain the starting value through the chosen entry point
        let obtained: Option<I> = no_panic(|| match c.entry {
            Entry::TryNew => (vt.ctor)(c.start.clone()).ok(),
            Entry::TryFromOwned => match (vt.try_from, vt.from) {
                (Some(f), _) => f(c.start.clone()).ok(),
                (_, Some(f)) => Some(f(c.start.clone())),
                _ => None,
            },
            Entry::TryFromStr if I::KIND == Kind::Str => vt.try_from_str.and_then(|f| f(c.start.as_str_()).ok()),
            Entry::FromRefStr if I::KIND == Kind::Str => vt.from_str_ref.map(|f| f(c.start.as_str_())),
            Entry::FromStr if I::KIND == Kind::Str => vt.from_str_s.and_then(|f| f(c.start.as_str_()).ok()),
            Entry::FromStr => match (vt.from_str, c.start.display_()) {
                (Some(f), Some(text)) => match f(&text) {
                    FsOut::Ok(v) => Some(v),
                    _ => None,
                },
                _ => None,
            },
            Entry::DeJson | Entry::DeMsgPack => {
                let f = if c.entry == Entry::DeJson { Fmt::Json } else { Fmt::MsgPack };
                match (vt.de, enc(f, &c.start)) {
                    (Some(de), Ok(doc)) => de(f, Pos::Top, &doc).ok().and_then(|v| v.into_iter().next()),
                    _ => None,
                }
            }
            Entry::Arbitrary => vt.arbitrary.and_then(|f| f(&c.start.key()).ok()),
            Entry::Default => vt.default.map(|f| f()),
            Entry::DeValue => vt.de_value.and_then(|f| f(c.start.clone(), 0)).and_then(|r| r.ok()),
            Entry::DeValueSeq => vt.de_value.and_then(|f| f(c.start.clone(), 1)).and_then(|r| r.ok()),
            Entry::DeInPlace => match (vt.de_in_place, crate::props::c04::valid_start(vt), enc(Fmt::Json, &c.start)) {
                (Some(dip), Some(base), Ok(doc)) => dip(base, Fmt::Json, &doc).map(|(_ok, after)| after),
                _ => None,
            },
            _ => None,
        })
        .ok()
        .flatten();
        let Some(v0) = obtained else { return Outcome::ok(false, "start-not-obtainable") };
        // the property itself: the constructor maps an obtained value to itself
        {
            // chains with a custom sanitizer: the claim is made where the reference model says the chain is
            // idempotent - at the obtained value, or at the value the model expects this start to yield
            // (an entry point that skips the sanitizers hands out a value that is not a fixed point)
            let fixed = |x: &I| matches!(crate::model::construct(m, x.clone()), Ok(ref y) if y.same(x));
            // (Arbitrary uses the start only as bytes: the value it yields is unrelated to it)
            // a chain of one function declared idempotent is idempotent everywhere
            let gate = !has_custom_san || m.sans.len() == 1 || fixed(&v0) || (!matches!(c.entry, Entry::Arbitrary | Entry::Default) && matches!(crate::model::construct(m, c.start.clone()), Ok(ref e) if fixed(e)));
            if gate {
                match no_panic(|| (vt.ctor)(v0.clone())) {
                    Ok(Ok(x)) if x.same(&v0) => {}
                    Ok(Ok(x)) => {
                        return Outcome::fail(true, "obtained-value-not-canonical", format!("C11|{}|obtained-via-{:?}|value-changed-by-constructor|sans={}|vals={}", I::NAME, c.entry, san_names(m), val_names(m)), format!("Ok({})", v0.to_json()), format!("Ok({})", x.to_json()))
                    }
                    Ok(Err(e)) => {
                        return Outcome::fail(true, "obtained-value-not-canonical", format!("C11|{}|obtained-via-{:?}|value-rejected-by-constructor|sans={}|vals={}", I::NAME, c.entry, san_names(m), val_names(m)), format!("Ok({})", v0.to_json()), format!("Err({})", e.show()))
                    }
                    Err(_) => {}
                }
            }
        }
        // chains containing a custom sanitizer: individually idempotent functions do not make the chain
        // idempotent (truncate-then-uppercase, truncate-after-trim); the property speaks only where the
        // reference model maps the value to itself. Built-in-only chains are checked unconditionally.
        if has_custom_san && !matches!(crate::model::construct(m, v0.clone()), Ok(ref x) if x.same(&v0)) {
            return Outcome::ok(false, "chain-not-idempotent-at-this-value");
        }
        let changed = !v0.same(&c.start);
        let media: std::collections::BTreeSet<u8> = c.ops.iter().map(|o| match o { Op::TryNew | Op::TryFrom => 0, Op::DisplayFromStr => 1, _ => 2 }).collect();
        let nontrivial = changed || (c.ops.len() >= 2 && media.len() >= 2);
        let class = if changed { "start-sanitized" } else if c.ops.len() >= 2 { "chain" } else { "single-step" };
        let mut cur = v0.clone();
        for o in &c.ops {
            let next: Option<Result<I, String>> = match o {
                Op::TryNew => Some(no_panic(|| (vt.ctor)(cur.clone())).map_err(|p| format!("panic: {p}")).and_then(|r| r.map_err(|e| format!("Err({})", e.show())))),
                Op::TryFrom => {
                    if let Some(f) = vt.try_from {
                        Some(no_panic(|| f(cur.clone())).map_err(|p| format!("panic: {p}")).and_then(|r| r.map_err(|e| format!("Err({})", e.show()))))
                    } else {
                        vt.from.map(|f| no_panic(|| f(cur.clone())).map_err(|p| format!("panic: {p}")))
                    }
                }
                Op::DisplayFromStr => {
                    let Some(df) = vt.display else { continue };
                    let Ok(Some(texts)) = no_panic(|| df(cur.clone())) else { continue };
                    let Some(text) = texts.into_iter().next() else { continue };
                    // applicable only if the inner type itself survives its own Display/FromStr
                    if I::KIND != Kind::Str {
                        match I::parse_(&text) {
                            Some(Ok(back)) if back.same(&cur) => {}
                            _ => continue,
                        }
                    }
                    if let Some(f) = vt.from_str {
                        Some(match no_panic(|| f(&text)) {
                            Ok(FsOut::Ok(v)) => Ok(v),
                            Ok(FsOut::Parse(e)) => Err(format!("Parse({e})")),
                            Ok(FsOut::Validate(e)) => Err(format!("Validate({})", e.show())),
                            Err(p) => Err(format!("panic: {p}")),
                        })
                    } else {
                        vt.from_str_s.map(|f| no_panic(|| f(&text)).map_err(|p| format!("panic: {p}")).and_then(|r| r.map_err(|e| format!("Err({})", e.show()))))
                    }
                }
                Op::SerDeJson | Op::SerDeRon | Op::SerDeMsgPack => {
                    let f = match o {
                        Op::SerDeJson => Fmt::Json,
                        Op::SerDeRon => Fmt::Ron,
                        _ => Fmt::MsgPack,
                    };
                    let (Some(ser), Some(de)) = (vt.ser, vt.de) else { continue };
                    // applicable only if the inner value round-trips in this format
                    let inner_ok = match f {
                        Fmt::Ron => vt.ser_ref.and_then(|s| s(cur.clone(), f).ok()).and_then(|b| vt.de_ref.and_then(|d| d(f, Pos::Top, &b).ok())).map_or(false, |x| x.len() == 1 && x[0].same(&cur)),
                        _ => enc(f, &cur).ok().and_then(|b| dec::<I>(f, &b).ok()).map_or(false, |x| x.same(&cur)),
                    };
                    if !inner_ok {
                        continue;
                    }
                    let Ok(Some(Ok(bytes))) = no_panic(|| ser(cur.clone(), f)) else { continue };
                    Some(match no_panic(|| de(f, Pos::Top, &bytes)) {
                        Ok(Ok(v)) if v.len() == 1 => Ok(v.into_iter().next().unwrap()),
                        Ok(Ok(v)) => Err(format!("{} values", v.len())),
                        Ok(Err(e)) => Err(format!("Err({e})")),
                        Err(p) => Err(format!("panic: {p}")),
                    })
                }
            };
            match next {
                None => continue,
                Some(Ok(v)) if v.same(&cur) => cur = v,
                Some(Ok(v)) => return Outcome::fail(nontrivial, class, sig(*o, "value-changed"), format!("{}", cur.to_json()), format!("{}", v.to_json())),
                Some(Err(e)) => return Outcome::fail(nontrivial, class, sig(*o, "value-rejected-on-re-entry"), format!("Ok({})", cur.to_json()), e),
            }
        }
        Outcome::ok(nontrivial, class)
    };
    // systematic: every start value with each single op, plus a rotating selection of longer chains
    let starts = I::systematic(m, ctx.tier);
    let mut sys = Vec::with_capacity(starts.len() * 3);
    let entries: Vec<Entry> = ENTRIES
        .iter()
        .copied()
        .filter(|e| match e {
            Entry::TryNew => true,
            Entry::TryFromOwned => vt.try_from.is_some() || vt.from.is_some(),
            Entry::TryFromStr => vt.try_from_str.is_some(),
            Entry::FromRefStr => vt.from_str_ref.is_some(),
            Entry::FromStr => vt.from_str.is_some() || vt.from_str_s.is_some(),
            Entry::DeJson | Entry::DeMsgPack => vt.de.is_some(),
            Entry::DeInPlace => vt.de_in_place.is_some(),
            Entry::Arbitrary => vt.arbitrary.is_some(),
            Entry::Default => vt.default.is_some(),
            Entry::DeValue | Entry::DeValueSeq => vt.de_value.is_some(),
        })
        .collect();
    for (i, s) in starts.iter().enumerate() {
        sys.push(Chain { start: s.clone(), entry: Entry::TryNew, ops: vec![Op::TryNew] });
        // every other entry point on a rotating basis (all of them when there are few starts)
        for (ei, e) in entries.iter().enumerate().skip(1) {
            if starts.len() < 5000 || (i + ei) % (entries.len() - 1).max(1) == 0 {
                sys.push(Chain { start: s.clone(), entry: *e, ops: vec![] });
            }
        }
        if !avail.is_empty() {
            let a = avail[i % avail.len()];
            let b = avail[(i / avail.len()) % avail.len()];
            let c = avail[(i / 7) % avail.len()];
            sys.push(Chain { start: s.clone(), entry: entries[i % entries.len()], ops: vec![a, b] });
            if i % 5 == 0 {
                sys.push(Chain { start: s.clone(), entry: entries[(i / 5) % entries.len()], ops: vec![b, a, c, a] });
            }
        }
    }
    let av = avail.clone();
    let strat = (I::strategy(m), proptest::sample::select(entries.clone()), proptest::collection::vec(proptest::sample::select(av), 0..=4))
        .prop_map(|(start, entry, ops)| Chain { start, entry, ops })
        .boxed();
    drive(ctx, &info, &mut rep, sys, Some(strat), ctx.n_random(1500, 100_000), &eval);
    rep
}
