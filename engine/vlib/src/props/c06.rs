//! C06 — non-string FromStr = inner parse, then the constructor.

use crate::drive::*;
use crate::inputs::*;
use crate::model;
use crate::props::c01::{san_names, val_names};
use crate::report::*;
use crate::types::*;
use proptest::prelude::*;

pub fn hostile_number_strings() -> Vec<String> {
    let mut v: Vec<String> = [
        "", " ", "+", "-", "+5", "-5", "05", "005", "+05", " 5", "5 ", "5\n", "\t5", "5.0", "5.", ".5", "5e0", "5E0", "1e3", "1e400", "-1e400", "1e39", "-1e39", "3.4028236e38",
        "3.4028235e38", "1e-50", "1e-400", "NaN", "nan", "-NaN", "inf", "-inf", "+inf", "Inf", "infinity", "-infinity", "INFINITY", "0", "-0", "+0", "0.0", "-0.0", "0x10", "1_000", "１２", "٣", "5a",
        "a5", "--5", "+-5", "5-", "9223372036854775807", "9223372036854775808", "-9223372036854775808", "-9223372036854775809", "18446744073709551615", "18446744073709551616",
        "340282366920938463463374607431768211455", "340282366920938463463374607431768211456", "170141183460469231731687303715884105727", "170141183460469231731687303715884105728",
        "-170141183460469231731687303715884105728", "-170141183460469231731687303715884105729", "255", "256", "-128", "-129", "127", "128", "65535", "65536", "32767", "32768", "-32768", "-32769",
        "4294967295", "4294967296", "2147483647", "2147483648", "-2147483648", "-2147483649", "1;2", "-3;4", "1;", ";2", "1;2;3", " 1;2", "1; 2", "0;0", "100;100", "32768;0", "0;-32769", "+1;+2",
        "16777217", "9007199254740993", "0.1", "0.30000000000000004", "1e308", "1.7976931348623157e308", "1.7976931348623159e308", "4.9e-324", "2e-324", "1.1754944e-38", "1e-45", "7e-46",
    ]
    .iter()
    .map(|s| s.to_string())
    .collect();
    v.push("9".repeat(60));
    v.push(format!("-{}", "9".repeat(60)));
    v.push(format!("0.{}1", "0".repeat(400)));
    v
}

pub fn check<I: Inputs>(vt: &'static Vt<I>, ctx: &Ctx) -> DeclReport {
    let Some(fs) = vt.from_str else { return DeclReport::irrelevant(vt.id) };
    let mut rep = DeclReport::new(vt.id);
    let info = DeclInfo::of(vt);
    let m = vt.model;
    // strings: renderings of every systematic inner value, padded / signed variants of some, hostile strings
    let mut sys: Vec<Text> = vec![];
    for (i, v) in I::systematic(m, ctx.tier).into_iter().enumerate() {
        if let Some(s) = v.display_() {
            if i % 7 == 0 {
                sys.push(Text(format!("+{s}")));
                sys.push(Text(format!(" {s}")));
                sys.push(Text(format!("0{s}")));
                sys.push(Text(format!("{s}0")));
                sys.push(Text(format!("{s}.0")));
                sys.push(Text(format!("{s}e0")));
            }
            sys.push(Text(s));
        }
    }
    sys.extend(hostile_number_strings().into_iter().map(Text));
    let inner_strat = I::strategy(m);
    let strat = prop_oneof![
        inner_strat.prop_filter_map("displayable", |v| v.display_()).prop_map(Text),
        "[-+]?[0-9]{1,42}".prop_map(Text),
        "[-+]?[0-9]{0,6}\\.?[0-9]{0,6}(e[-+]?[0-9]{1,3})?".prop_map(Text),
        "[-+0-9;.eE naifNI]{0,12}".prop_map(Text),
        ".{0,8}".prop_map(Text),
    ]
    .boxed();

    let eval = |t: &Text| -> Outcome { eval_text(vt, t) };
    drive(ctx, &info, &mut rep, sys, Some(strat), ctx.n_random(1500, 75_000), &eval);
    rep
}

/// one case of C06 (also the body of the fuzz target)
pub fn eval_text<I: Inputs>(vt: &'static Vt<I>, t: &Text) -> Outcome {
    let Some(fs) = vt.from_str else { return Outcome::ok(false, "irrelevant") };
    let m = vt.model;
    let s = t.0.as_str();
    let parsed = I::parse_(s).expect("inner type of a FromStr newtype parses");
    let (expected, class, nontrivial): (FsOut<I>, &'static str, bool) = match parsed {
        Err(e) => (FsOut::Parse(e), "inner-parse-fails", false),
        Ok(v) => match no_panic(|| (vt.ctor)(v.clone())) {
            Ok(Ok(x)) => {
                let changed = !x.same(&v);
                (FsOut::Ok(x), if changed { "parses-accepted-sanitized" } else { "parses-accepted" }, true)
            }
            Ok(Err(e)) => (FsOut::Validate(e), "parses-rejected", true),
            Err(_) => return Outcome::ok(true, "ctor-panicked"),
        },
    };
    // independent cross-check of the verdict with the model (the constructor is C01's subject)
    let _ = model::sanitize::<I>;
    let got = no_panic(|| fs(s));
    let sig = |w: &str| format!("C06|{}|{w}|sans={}|vals={}", I::NAME, san_names(m), val_names(m));
    let show = |o: &FsOut<I>| match o {
        FsOut::Ok(v) => format!("Ok({})", v.to_json()),
        FsOut::Parse(e) => format!("Parse({e})"),
        FsOut::Validate(e) => format!("Validate({})", e.show()),
    };
    match got {
        Err(p) => Outcome::fail(nontrivial, class, sig("panic"), show(&expected), format!("panic: {}", p.lines().next().unwrap_or(""))),
        Ok(g) => {
            let same = match (&g, &expected) {
                (FsOut::Ok(a), FsOut::Ok(b)) => a.same(b),
                (FsOut::Parse(a), FsOut::Parse(b)) => a == b,
                (FsOut::Validate(a), FsOut::Validate(b)) => a == b,
                _ => false,
            };
            if same {
                Outcome::ok(nontrivial, class)
            } else {
                let w = match (&expected, &g) {
                    (FsOut::Parse(_), FsOut::Ok(_)) => "accepts-unparseable",
                    (FsOut::Validate(_), FsOut::Ok(_)) => "accepts-rejected-value",
                    (FsOut::Ok(_), FsOut::Ok(_)) => "wrong-value",
                    (FsOut::Ok(_), _) => "rejects-valid",
                    (FsOut::Parse(_), FsOut::Validate(_)) | (FsOut::Validate(_), FsOut::Parse(_)) => "wrong-error-kind",
                    _ => "wrong-error-payload",
                };
                Outcome::fail(nontrivial, class, sig(w), show(&expected), show(&g))
            }
        }
    }
}
