//! C06 — non-string FromStr = inner parse, then the constructor.

use crate::drive::*;
use crate::inputs::*;
use crate::model;
use crate::props::c01::{san_names, val_names};
use crate::report::*;
use crate::types::*;
use proptest::prelude::*;

pub fn hostile_number_strings() -> Vec<String> {
    let mut v: Vec<String> = [
        "", " ", "+", "-", "+5", "-5", "05", "005", "+05", " 5", "5 ", "5\n", "\t5", "5.0", "5.", ".5", "5e0", "5E0", "1e3", "1e400", "-1e400", "1e39", "-1e39", "3.4028236e38",
        "3.4028235e38", "1e-50", "1e-400", "NaN", "nan", "-NaN", "inf", "-inf", "+inf", "Inf", "infinity", "-infinity", "INFINITY", "0", "-0", "+0", "0.0", "-0.0", "0x10", "1_000", "１２", "٣", "5a",
        "a5", "--5", "+-5", "5-", "9223372036854775807", "9223372036854775808", "-9223372036854775808", "-9223372036854775809", "18446744073709551615", "18446744073709551616",
        "340282366920938463463374607431768211455", "340282366920938463463374607431768211456", "170141183460469231731687303715884105727", "170141183460469231731687303715884105728",
        "-170141183460469231731687303715884105728", "-170141183460469231731687303715884105729", "255", "256", "-128", "-129", "127", "128", "65535", "65536", "32767", "32768", "-32768", "-32769",
        "4294967295", "4294967296", "2147483647", "2147483648", "-2147483648", "-2147483649", "1;2", "-3;4", "1;", ";2", "1;2;3", " 1;2", "1; 2", "0;0", "100;100", "32768;0", "0;-32769", "+1;+2",
        "16777217", "9007199254740993", "0.1", "0.30000000000000004", "1e308", "1.7976931348623157e308", "1.7976931348623159e308", "4.9e-324", "2e-324", "1.1754944e-38", "1e-45", "7e-46",
    ]
    .iter()
    .map(|s| s.to_string())
    .collect();
    v.push("9".repeat(60));
    v.push(format!("-{}", "9".repeat(60)));
    v.push(format!("0.{}1", "0".repeat(400)));
    v
}

/// decimal texts a hair above / below the midpoint of an f32 and its upper neighbour: the midpoint is an
/// exact f64, so a parser that goes through f64 (or any wider intermediate) and then narrows rounds twice
pub fn f32_midpoint_texts(v: f32) -> Vec<String> {
    if !v.is_finite() || v == 0.0 || v.abs() < 1e-30 || v.abs() > 1e30 {
        return vec![];
    }
    let up = if v > 0.0 { f32::from_bits(v.to_bits() + 1) } else { f32::from_bits(v.to_bits() - 1) };
    if !up.is_finite() {
        return vec![];
    }
    let mid = (v as f64 + up as f64) / 2.0;
    // exact decimal expansion of the f64 midpoint (enough digits for |v| >= 1e-30)
    let exact = format!("{mid:.140}");
    let exact = exact.trim_end_matches('0').to_string();
    let mut out = vec![exact.clone(), format!("{exact}0000000001")];
    // strictly below: decrement the last (non-zero) digit and continue with nines
    if let Some(last) = exact.chars().last().filter(|c| c.is_ascii_digit() && *c != '0') {
        let below = format!("{}{}9999999999", &exact[..exact.len() - 1], (last as u8 - 1) as char);
        // for negative numbers "below in magnitude" is above in value; both sides are wanted anyway
        out.push(below);
    }
    out
}

pub fn check<I: Inputs>(vt: &'static Vt<I>, ctx: &Ctx) -> DeclReport {
    let Some(fs) = vt.from_str else { return DeclReport::irrelevant(vt.id) };
    let mut rep = DeclReport::new(vt.id);
    let info = DeclInfo::of(vt);
    let m = vt.model;
    // strings: renderings of every systematic inner value, padded / signed variants of some, hostile strings
    let mut sys: Vec<Text> = vec![];
    for (i, v) in I::systematic(m, ctx.tier).into_iter().enumerate() {
        if let Some(s) = v.display_() {
            if i % 7 == 0 {
                sys.push(Text(format!("+{s}")));
                sys.push(Text(format!(" {s}")));
                sys.push(Text(format!("0{s}")));
                sys.push(Text(format!("{s}0")));
                sys.push(Text(format!("{s}.0")));
                sys.push(Text(format!("{s}e0")));
            }
            sys.push(Text(s));
        }
    }
    sys.extend(hostile_number_strings().into_iter().map(Text));
    if I::NAME == "f32" {
        let mut n = 0;
        for v in I::systematic(m, ctx.tier) {
            if let Some(x) = v.to_f64_() {
                let t = f32_midpoint_texts(x as f32);
                n += t.len();
                sys.extend(t.into_iter().map(Text));
            }
            if n > 1200 {
                break;
            }
        }
        for x in [16777216.0f32, 16777218.0, 1.0, 0.1, 3.0e10, 1.0e-10, -7.5, 255.0, 1.1754944e-38] {
            sys.extend(f32_midpoint_texts(x).into_iter().map(Text));
        }
    }
    let inner_strat = I::strategy(m);
    let strat = prop_oneof![
        inner_strat.prop_filter_map("displayable", |v| v.display_()).prop_map(Text),
        "[-+]?[0-9]{1,42}".prop_map(Text),
        "[-+]?[0-9]{0,6}\\.?[0-9]{0,6}(e[-+]?[0-9]{1,3})?".prop_map(Text),
        "[-+0-9;.eE naifNI]{0,12}".prop_map(Text),
        ".{0,8}".prop_map(Text),
        (any::<u32>(), 0usize..3).prop_map(|(b, k)| Text(f32_midpoint_texts(f32::from_bits(b)).get(k).cloned().unwrap_or_else(|| "1".into()))),
    ]
    .boxed();

    let eval = |t: &Text| -> Outcome { eval_text(vt, t) };
    drive(ctx, &info, &mut rep, sys, Some(strat), ctx.n_random(1500, 75_000), &eval);
    rep
}

/// one case of C06 (also the body of the fuzz target)
pub fn eval_text<I: Inputs>(vt: &'static Vt<I>, t: &Text) -> Outcome {
    let Some(fs) = vt.from_str else { return Outcome::ok(false, "irrelevant") };
    let m = vt.model;
    let s = t.0.as_str();
    let parsed = I::parse_(s).expect("inner type of a FromStr newtype parses");
    let (expected, class, nontrivial): (FsOut<I>, &'static str, bool) = match parsed {
        Err(e) => (FsOut::Parse(e), "inner-parse-fails", false),
        Ok(v) => match no_panic(|| (vt.ctor)(v.clone())) {
            Ok(Ok(x)) => {
                let changed = !x.same(&v);
                (FsOut::Ok(x), if changed { "parses-accepted-sanitized" } else { "parses-accepted" }, true)
            }
            Ok(Err(e)) => (FsOut::Validate(e), "parses-rejected", true),
            Err(_) => return Outcome::ok(true, "ctor-panicked"),
        },
    };
    // independent cross-check of the verdict with the model (the constructor is C01's subject)
    let _ = model::sanitize::<I>;
    I::parse_calls_reset_();
    let got = no_panic(|| fs(s));
    // the inner type's parser may be neither pure nor cheap: one call of from_str runs it exactly once
    if let Some(n) = I::parse_calls_() {
        if n != 1 {
            return Outcome::fail(true, class, format!("C06|{}|inner-parser-run-{}-times|sans={}|vals={}", I::NAME, if n == 0 { "zero".to_string() } else { n.to_string() }, san_names(m), val_names(m)), "the inner FromStr runs once".into(), format!("it ran {n} times for {s:?}"));
        }
    }
    let sig = |w: &str| format!("C06|{}|{w}|sans={}|vals={}", I::NAME, san_names(m), val_names(m));
    let show = |o: &FsOut<I>| match o {
        FsOut::Ok(v) => format!("Ok({})", v.to_json()),
        FsOut::Parse(e) => format!("Parse({e})"),
        FsOut::Validate(e) => format!("Validate({})", e.show()),
    };
    match got {
        Err(p) => Outcome::fail(nontrivial, class, sig("panic"), show(&expected), format!("panic: {}", p.lines().next().unwrap_or(""))),
        Ok(g) => {
            let same = match (&g, &expected) {
                (FsOut::Ok(a), FsOut::Ok(b)) => a.same(b),
                (FsOut::Parse(a), FsOut::Parse(b)) => a == b,
                (FsOut::Validate(a), FsOut::Validate(b)) => a == b,
                _ => false,
            };
            if same {
                Outcome::ok(nontrivial, class)
            } else {
                let w = match (&expected, &g) {
                    (FsOut::Parse(_), FsOut::Ok(_)) => "accepts-unparseable",
                    (FsOut::Validate(_), FsOut::Ok(_)) => "accepts-rejected-value",
                    (FsOut::Ok(_), FsOut::Ok(_)) => "wrong-value",
                    (FsOut::Ok(_), _) => "rejects-valid",
                    (FsOut::Parse(_), FsOut::Validate(_)) | (FsOut::Validate(_), FsOut::Parse(_)) => "wrong-error-kind",
                    _ => "wrong-error-payload",
                };
                Outcome::fail(nontrivial, class, sig(w), show(&expected), show(&g))
            }
        }
    }
}
