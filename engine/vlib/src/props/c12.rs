//! C12 — float newtypes with `finite` deriving Eq/Ord: no non-finite value is obtainable
//! through any entry point; Eq is reflexive; Ord is a total order agreeing with the inner
//! partial_cmp and never panics.

use crate::drive::*;
use crate::glue::enc;
use crate::inputs::*;
use crate::props::c01::val_names;
use crate::report::*;
use crate::types::*;
use proptest::prelude::*;
use serde_json::json;
use std::cmp::Ordering;

#[derive(Clone, Debug)]
pub struct Triple<I>(pub I, pub I, pub I);
impl<I: InnerTy> Case for Triple<I> {
    fn key(&self) -> Vec<u8> {
        let mut k = self.0.key();
        k.extend(self.1.key());
        k.extend(self.2.key());
        k
    }
    fn to_json(&self) -> serde_json::Value {
        json!({"a": self.0.to_json(), "b": self.1.to_json(), "c": self.2.to_json()})
    }
    fn from_json(v: &serde_json::Value) -> Option<Self> {
        Some(Triple(I::from_json(v.get("a")?)?, I::from_json(v.get("b")?)?, I::from_json(v.get("c")?)?))
    }
    fn weight(&self) -> u128 {
        self.0.weight().saturating_add(self.1.weight()).saturating_add(self.2.weight())
    }
}

/// One attempt to obtain a value through some entry point.
#[derive(Clone, Debug)]
pub struct Attempt {
    pub entry: String,
    pub payload: Vec<u8>,
}
impl Case for Attempt {
    fn key(&self) -> Vec<u8> {
        let mut k = self.entry.as_bytes().to_vec();
        k.push(0);
        k.extend(&self.payload);
        k
    }
    fn to_json(&self) -> serde_json::Value {
        json!({"entry": self.entry, "payload_hex": hex(&self.payload), "payload_text": String::from_utf8_lossy(&self.payload)})
    }
    fn from_json(v: &serde_json::Value) -> Option<Self> {
        Some(Attempt { entry: v.get("entry")?.as_str()?.to_string(), payload: unhex(v.get("payload_hex")?.as_str()?)? })
    }
    fn weight(&self) -> u128 {
        self.payload.len() as u128
    }
}

pub trait FloatInner: Inputs + Copy + FloatBits {
    fn from_bits64(b: u64) -> Self;
    fn bits64(&self) -> u64;
    const BYTES: usize;
}
impl FloatInner for f32 {
    fn from_bits64(b: u64) -> Self {
        f32::from_bits(b as u32)
    }
    fn bits64(&self) -> u64 {
        self.to_bits() as u64
    }
    const BYTES: usize = 4;
}
impl FloatInner for f64 {
    fn from_bits64(b: u64) -> Self {
        f64::from_bits(b)
    }
    fn bits64(&self) -> u64 {
        self.to_bits()
    }
    const BYTES: usize = 8;
}

pub fn check_float<I: FloatInner>(vt: &'static Vt<I>, ctx: &Ctx) -> DeclReport {
    // relevant: derives Eq or Ord (the macro admits that only with `finite`)
    if !(vt.derives_trait("Eq") || vt.derives_trait("Ord")) {
        return DeclReport::irrelevant(vt.id);
    }
    let mut rep = DeclReport::new(vt.id);
    let info = DeclInfo::of(vt);
    let m = vt.model;
    let sig = |w: &str, e: &str| format!("C12|{}|{w}|entry={e}|vals={}", I::NAME, val_names(m));

    // (a) no non-finite value through any entry point
    let specials: Vec<I> = special_floats::<I>() .into_iter().collect();
    let mut attempts: Vec<Attempt> = vec![];
    let be = |v: &I| -> Vec<u8> { v.bits64().to_le_bytes()[..I::BYTES].to_vec() };
    for v in I::systematic(m, ctx.tier).iter().chain(specials.iter()) {
        attempts.push(Attempt { entry: "try_new".into(), payload: be(v) });
        if vt.try_from.is_some() {
            attempts.push(Attempt { entry: "TryFrom".into(), payload: be(v) });
        }
        if vt.de_value.is_some() && !v.is_finite_() {
            for k in 0..crate::glue::DE_VALUE_KINDS {
                let mut p = be(v);
                p.push(k);
                attempts.push(Attempt { entry: "de:value".into(), payload: p });
            }
        }
        if vt.de.is_some() && !v.is_finite_() {
            for (f, name) in [(Fmt::MsgPack, "de:MsgPack"), (Fmt::Ron, "de:Ron"), (Fmt::Json, "de:Json")] {
                if let Ok(doc) = enc(f, v) {
                    attempts.push(Attempt { entry: name.into(), payload: doc });
                }
            }
            // f64 NaN / inf narrowed into an f32 newtype
            let wide = f64::from_bits(if v.bits64() & (1 << (I::BYTES * 8 - 1)) != 0 { f64::NEG_INFINITY.to_bits() } else { f64::INFINITY.to_bits() });
            if let Ok(doc) = enc(Fmt::MsgPack, &wide) {
                attempts.push(Attempt { entry: "de:MsgPack".into(), payload: doc });
            }
            if let Ok(doc) = enc(Fmt::MsgPack, &f64::NAN) {
                attempts.push(Attempt { entry: "de:MsgPack".into(), payload: doc });
            }
        }
    }
    let texts = ["NaN", "nan", "-NaN", "inf", "-inf", "+inf", "infinity", "-infinity", "1e39", "-1e39", "1e309", "-1e309", "1e400", "3.4028236e38", "1.7976931348623159e308", "Infinity", "1e38", "1e308", "0", "-0", "1e-400"];
    for t in texts {
        if vt.from_str.is_some() {
            attempts.push(Attempt { entry: "FromStr".into(), payload: t.as_bytes().to_vec() });
        }
        if vt.de.is_some() {
            attempts.push(Attempt { entry: "de:Json".into(), payload: t.as_bytes().to_vec() });
            attempts.push(Attempt { entry: "de:Ron".into(), payload: t.as_bytes().to_vec() });
            attempts.push(Attempt { entry: "de:Ron".into(), payload: format!("{}({t})", vt.type_name).into_bytes() });
        }
    }
    if vt.arbitrary.is_some() {
        for v in &specials {
            let b = be(v);
            attempts.push(Attempt { entry: "Arbitrary".into(), payload: b.clone() });
            let mut rb = b.clone();
            rb.reverse();
            attempts.push(Attempt { entry: "Arbitrary".into(), payload: rb });
            attempts.push(Attempt { entry: "Arbitrary".into(), payload: [b.clone(), b].concat() });
        }
        for n in 0..=16usize {
            attempts.push(Attempt { entry: "Arbitrary".into(), payload: vec![0xFF; n] });
            attempts.push(Attempt { entry: "Arbitrary".into(), payload: vec![0x7F; n] });
            attempts.push(Attempt { entry: "Arbitrary".into(), payload: vec![0x00; n] });
            attempts.push(Attempt { entry: "Arbitrary".into(), payload: (0..n).map(|i| (i * 37 + 11) as u8).collect() });
        }
        // every one- and two-byte input
        for a in 0..=255u8 {
            attempts.push(Attempt { entry: "Arbitrary".into(), payload: vec![a] });
            attempts.push(Attempt { entry: "Arbitrary".into(), payload: vec![0, 0, 0, a] });
            attempts.push(Attempt { entry: "Arbitrary".into(), payload: vec![0, 0, 0, 0, 0, 0, 0, a] });
        }
    }
    if vt.default.is_some() {
        attempts.push(Attempt { entry: "Default".into(), payload: vec![] });
    }
    if vt.de_in_place.is_some() {
        let dips: Vec<Attempt> = attempts
            .iter()
            .filter(|a| matches!(a.entry.as_str(), "de:Json" | "de:Ron" | "de:MsgPack"))
            .map(|a| Attempt { entry: a.entry.replace("de:", "dip:"), payload: a.payload.clone() })
            .collect();
        attempts.extend(dips);
    }
    let obtain = |a: &Attempt| -> Result<Option<I>, String> {
        let from_payload = |p: &[u8]| -> I {
            let mut b = [0u8; 8];
            b[..p.len().min(8)].copy_from_slice(&p[..p.len().min(8)]);
            I::from_bits64(u64::from_le_bytes(b))
        };
        no_panic(|| match a.entry.as_str() {
            "try_new" => (vt.ctor)(from_payload(&a.payload)).ok(),
            "TryFrom" => vt.try_from.and_then(|f| f(from_payload(&a.payload)).ok()),
            "FromStr" => vt.from_str.and_then(|f| match f(&String::from_utf8_lossy(&a.payload)) {
                FsOut::Ok(v) => Some(v),
                _ => None,
            }),
            "de:Json" => vt.de.and_then(|f| f(Fmt::Json, Pos::Top, &a.payload).ok()).and_then(|v| v.into_iter().next()),
            "de:Ron" => vt.de.and_then(|f| f(Fmt::Ron, Pos::Top, &a.payload).ok()).and_then(|v| v.into_iter().next()),
            "de:MsgPack" => vt.de.and_then(|f| f(Fmt::MsgPack, Pos::Top, &a.payload).ok()).and_then(|v| v.into_iter().next()),
            "Arbitrary" => vt.arbitrary.and_then(|f| f(&a.payload).ok()),
            "de:value" => {
                let (bits, kind) = a.payload.split_at(a.payload.len().saturating_sub(1));
                vt.de_value.and_then(|f| f(from_payload(bits), kind.first().copied().unwrap_or(0))).and_then(|r| r.ok())
            }
            "Default" => vt.default.map(|f| f()),
            // the value an existing (valid) newtype holds after deserialize_in_place, whether that call succeeded or not
            "dip:Json" | "dip:Ron" | "dip:MsgPack" => {
                let f = match a.entry.as_str() {
                    "dip:Json" => Fmt::Json,
                    "dip:Ron" => Fmt::Ron,
                    _ => Fmt::MsgPack,
                };
                match (vt.de_in_place, crate::props::c04::valid_start(vt)) {
                    (Some(dip), Some(base)) => dip(base, f, &a.payload).map(|(_ok, after)| after),
                    _ => None,
                }
            }
            _ => None,
        })
    };
    let eval_a = |a: &Attempt| -> Outcome {
        let nonfinite_input = match a.entry.as_str() {
            "try_new" | "TryFrom" => {
                let mut b = [0u8; 8];
                b[..a.payload.len().min(8)].copy_from_slice(&a.payload[..a.payload.len().min(8)]);
                !I::from_bits64(u64::from_le_bytes(b)).is_finite_()
            }
            _ => true,
        };
        let class = if nonfinite_input { "entry-nonfinite-or-hostile-input" } else { "entry-finite-input" };
        match obtain(a) {
            Ok(Some(v)) if !v.is_finite_() => Outcome::fail(true, class, sig("non-finite-value-obtained", &a.entry), "no value / a finite value".into(), format!("{}", v.to_json())),
            // panics of Default / Arbitrary are C03's / C09's subject
            _ => Outcome::ok(nonfinite_input, class),
        }
    };
    let bits_strat = any::<u64>().prop_map(move |b| Attempt { entry: "try_new".into(), payload: b.to_le_bytes()[..I::BYTES].to_vec() });
    let arb_strat = proptest::collection::vec(any::<u8>(), 0..24).prop_map(|p| Attempt { entry: "Arbitrary".into(), payload: p });
    let strat = if vt.arbitrary.is_some() { prop_oneof![bits_strat, arb_strat].boxed() } else { bits_strat.boxed() };
    drive(ctx, &info, &mut rep, attempts, Some(strat), ctx.n_random(2000, 200_000), &eval_a);

    // Default called repeatedly (declarations whose default expression changes from call to call): a call whose
    // expression the constructor rejects must not hand out a value
    if let (Some(h), true) = (vt.default_history, ctx.case.is_none() || ctx.case.as_ref().is_some_and(|c| c.get("default_history").is_some())) {
        let mut prefix: Vec<String> = vec![];
        for (label, ctor_ok, got) in h() {
            prefix.push(label.clone());
            rep.evaluations += 1;
            rep.nontrivial += 1;
            rep.class("default-history-step");
            if !ctor_ok && got.is_some() {
                let mut w = Default::default();
                rep.viol(
                    Viol {
                        prop: "C12".into(),
                        decl_id: vt.id.into(),
                        type_name: vt.type_name.into(),
                        decl: vt.decl.into(),
                        signature: sig("value-the-constructor-rejects-obtained", "Default-history"),
                        case: json!({"default_history": prefix}),
                        expected: "panic (the constructor rejects this call's default expression)".into(),
                        actual: format!("a value, at {label}"),
                        shrunk: "none".into(),
                    },
                    0,
                    &mut w,
                );
                break;
            }
        }
    }

    // thorough tier: ALL 2^32 bit patterns through try_new / TryFrom for f32 declarations
    if ctx.tier == Tier::Thorough && ctx.case.is_none() && I::BYTES == 4 {
        let mut bad: Option<u64> = None;
        let mut n = 0u64;
        let mut nonfinite = 0u64;
        for bits in 0..=u32::MAX as u64 {
            let raw = I::from_bits64(bits);
            n += 1;
            if !raw.is_finite_() {
                nonfinite += 1;
            }
            let got = no_panic(|| (vt.ctor)(raw));
            let got2 = vt.try_from.map(|f| no_panic(|| f(raw)));
            for g in [Some(got), got2].into_iter().flatten() {
                if let Ok(Ok(v)) = g {
                    if !v.is_finite_() && bad.is_none() {
                        bad = Some(bits);
                    }
                }
            }
        }
        rep.evaluations += n;
        rep.nontrivial += nonfinite;
        rep.class_n("exhaustive-f32", n);
        rep.exhaustive = true;
        if let Some(bits) = bad {
            let raw = I::from_bits64(bits);
            let mut w = Default::default();
            rep.viol(
                Viol { prop: "C12".into(), decl_id: vt.id.into(), type_name: vt.type_name.into(), decl: vt.decl.into(), signature: sig("non-finite-value-obtained", "try_new|exhaustive"), case: json!({"entry": "try_new", "payload_hex": hex(&bits.to_le_bytes()[..4]), "payload_text": ""}), expected: "no value / a finite value".into(), actual: format!("{}", raw.to_json()), shrunk: "enumeration-minimum".into() },
                0,
                &mut w,
            );
        }
    }

    // (b) order laws on obtainable values. Operands are *raw* inputs the constructor accepts; the
    // oracle compares with the inner values the constructor actually stored for them.
    let (Some(cmpf), Some(pcmpf), Some(eqf)) = (vt.cmp, vt.partial_cmp, vt.eq) else { return rep };
    let stored = |raw: I| -> Option<I> { no_panic(|| (vt.ctor)(raw)).ok().and_then(|r| r.ok()) };
    let mut vals: Vec<I> = vec![];
    let mut seen_stored: Vec<I> = vec![];
    for v in I::systematic(m, ctx.tier).into_iter().chain(specials.into_iter()) {
        if let Some(x) = stored(v) {
            if !seen_stored.iter().any(|y| y.same(&x)) {
                seen_stored.push(x);
                vals.push(v);
            }
        }
    }
    // keep a spread of at most N obtainable values (always including zeros, extremes, bound neighbours)
    let n = if ctx.quick() { 28 } else { 64 };
    if vals.len() > n {
        let step = vals.len() as f64 / n as f64;
        vals = (0..n).map(|i| vals[(i as f64 * step) as usize]).collect();
    }
    let eval_t = |t: &Triple<I>| -> Outcome {
        let (a, b, c) = (t.0, t.1, t.2);
        let (Some(ia), Some(ib), Some(ic)) = (stored(a), stored(b), stored(c)) else {
            return Outcome::ok(false, "triple-not-obtainable");
        };
        let special = |x: &I| x.bits64() << 1 == 0 || x.weight() < 1 << 24 || x.near_bound(m);
        let nontrivial = special(&ia) || special(&ib) || special(&ic);
        let class = "triple";
        let r = no_panic(|| {
            let ab = cmpf(a, b)?;
            let ba = cmpf(b, a)?;
            let bc = cmpf(b, c)?;
            let ac = cmpf(a, c)?;
            let aa = eqf(a, a)?;
            let pab = pcmpf(a, b)?;
            Some((ab, ba, bc, ac, aa, pab))
        });
        let _ = ic;
        match r {
            Err(p) => Outcome::fail(nontrivial, class, sig("cmp-panicked", "Ord"), "no panic".into(), format!("panic: {}", p.lines().next().unwrap_or(""))),
            Ok(None) => Outcome::ok(false, "triple-not-obtainable"),
            Ok(Some((ab, ba, bc, ac, aa, pab))) => {
                if !aa {
                    return Outcome::fail(nontrivial, class, sig("eq-not-reflexive", "Eq"), "a == a".into(), "a != a".into());
                }
                if ab != ba.reverse() {
                    return Outcome::fail(nontrivial, class, sig("cmp-not-antisymmetric", "Ord"), format!("cmp(b,a) == {:?}", ab.reverse()), format!("{ba:?}"));
                }
                if ab != Ordering::Greater && bc != Ordering::Greater && ac == Ordering::Greater {
                    return Outcome::fail(nontrivial, class, sig("cmp-not-transitive", "Ord"), "a <= c".into(), "a > c".into());
                }
                if ia.pcmp(&ib) != Some(ab) {
                    return Outcome::fail(nontrivial, class, sig("cmp-disagrees-with-inner-partial_cmp", "Ord"), format!("{:?}", ia.pcmp(&ib)), format!("{ab:?}"));
                }
                if pab != Some(ab) {
                    return Outcome::fail(nontrivial, class, sig("partial_cmp-disagrees-with-cmp", "PartialOrd"), format!("Some({ab:?})"), format!("{pab:?}"));
                }
                Outcome::ok(nontrivial, class)
            }
        }
    };
    let mut triples = Vec::with_capacity(vals.len().pow(3));
    for a in &vals {
        for b in &vals {
            for c in &vals {
                triples.push(Triple(*a, *b, *c));
            }
        }
    }
    // random triples are drawn from the raw inputs known to be accepted, plus arbitrary floats
    let s = I::strategy(m);
    let pool = vals.clone();
    let from_pool = proptest::sample::select(if pool.is_empty() { vec![I::from_bits64(0)] } else { pool });
    let one = prop_oneof![from_pool, s].boxed();
    let tstrat = (one.clone(), one.clone(), one).prop_map(|(a, b, c)| Triple(a, b, c)).boxed();
    drive(ctx, &info, &mut rep, triples, Some(tstrat), ctx.n_random(2000, 500_000), &eval_t);

    // sort and ordered-map use
    if ctx.case.is_none() {
        if let Some(sortf) = vt.sort {
            let input: Vec<I> = vals.iter().rev().cloned().collect();
            let expected_len = input.iter().filter(|x| stored(**x).is_some()).count();
            rep.evaluations += 1;
            rep.nontrivial += 1;
            rep.class("sort");
            match no_panic(|| sortf(input.clone())) {
                Ok(sorted) => {
                    let ok = sorted.windows(2).all(|w| w[0].pcmp(&w[1]) != Some(Ordering::Greater)) && sorted.len() == expected_len;
                    if !ok {
                        let mut w = Default::default();
                        rep.viol(Viol { prop: "C12".into(), decl_id: vt.id.into(), type_name: vt.type_name.into(), decl: vt.decl.into(), signature: sig("sort-not-ordered", "Ord"), case: json!({"sort": input.iter().map(|x| x.to_json()).collect::<Vec<_>>()}), expected: "inner-sorted permutation".into(), actual: format!("{:?}", sorted), shrunk: "none".into() }, 0, &mut w);
                    }
                }
                Err(p) => {
                    let mut w = Default::default();
                    rep.viol(Viol { prop: "C12".into(), decl_id: vt.id.into(), type_name: vt.type_name.into(), decl: vt.decl.into(), signature: sig("sort-panicked", "Ord"), case: json!({"sort": input.iter().map(|x| x.to_json()).collect::<Vec<_>>()}), expected: "no panic".into(), actual: p, shrunk: "none".into() }, 0, &mut w);
                }
            }
        }
        if let Some(bt) = vt.btree {
            rep.evaluations += 1;
            rep.nontrivial += 1;
            rep.class("btree");
            let r = no_panic(|| bt(vals.clone()));
            if r != Ok(true) {
                let mut w = Default::default();
                rep.viol(Viol { prop: "C12".into(), decl_id: vt.id.into(), type_name: vt.type_name.into(), decl: vt.decl.into(), signature: sig("btree-lookup-failed", "Ord"), case: json!({"btree": vals.iter().map(|x| x.to_json()).collect::<Vec<_>>()}), expected: "all inserted keys found".into(), actual: format!("{r:?}"), shrunk: "none".into() }, 0, &mut w);
            }
        }
    }
    rep
}
