//! C02 — every written rule is enforced as written (the declaration was accepted by
//! rustc; rejected spellings never reach this check and are an allowed outcome).
//! Oracle: C01's reference model, with every bound value computed by rustc from the
//! same tokens in a neutral `const`, and the union of all written blocks as the model.

use crate::drive::*;
use crate::inputs::*;
use crate::props::c01::compare_ctor;
use crate::report::*;
use crate::types::*;

pub fn check<I: Inputs>(vt: &'static Vt<I>, ctx: &Ctx) -> DeclReport {
    if vt.tags.iter().any(|t| t.starts_with("c02:must-reject")) {
        // a unit that should not have compiled: the driver reports its acceptance; its model is a dummy
        return DeclReport::irrelevant(vt.id);
    }
    let mut rep = DeclReport::new(vt.id);
    let info = DeclInfo::of(vt);
    let m = vt.model;
    let class: &'static str = vt.tags.iter().find(|t| t.starts_with("c02:spelling:") || t.starts_with("c02:layout:") || t.starts_with("c02:sanitizer-order:")).copied().unwrap_or("c02:other");
    let noncanonical = class != "c02:spelling:lit";
    let eval = |raw: &I| -> Outcome {
        let mut o = compare_ctor("C02", class, vt, vt.ctor, raw, false);
        let near = raw.near_bound(m);
        o.nontrivial = noncanonical && (near || I::KIND == Kind::Str && o.nontrivial);
        o.class = if near { "near-denoted-bound" } else { "elsewhere" };
        o
    };
    rep.exhaustive = I::KIND == Kind::Int && std::mem::size_of::<I>() <= 2;
    drive(ctx, &info, &mut rep, I::systematic(m, ctx.tier), Some(I::strategy(m)), ctx.n_random(500, 20_000), &eval);
    rep
}
