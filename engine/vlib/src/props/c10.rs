//! C10 — serialization is transparent; valid values survive a serde round trip.

use crate::drive::*;
use crate::glue::{dec, enc};
use crate::inputs::*;
use crate::model;
use crate::props::c01::{san_names, val_names};
use crate::report::*;
use crate::types::*;

fn fmt_name(f: Fmt) -> &'static str {
    match f {
        Fmt::Json => "json",
        Fmt::Ron => "ron",
        Fmt::MsgPack => "msgpack",
        Fmt::JsonReader => "json-reader",
        Fmt::JsonValue => "json-value",
        Fmt::RonNamed => "ron-named",
    }
}

pub fn check<I: Inputs>(vt: &'static Vt<I>, ctx: &Ctx) -> DeclReport {
    let (Some(ser), Some(ser_ref)) = (vt.ser, vt.ser_ref) else { return DeclReport::irrelevant(vt.id) };
    let mut rep = DeclReport::new(vt.id);
    let info = DeclInfo::of(vt);
    let m = vt.model;
    let has_custom_san = m.sans.iter().any(|s| matches!(s, San::With { .. }));
    if !m.builtin_only() {
        // a custom sanitizer not declared idempotent: outside the property's quantifier
        return DeclReport::irrelevant(vt.id);
    }
    let eval = |raw: &I| -> Outcome {
        let Ok(Ok(v)) = no_panic(|| (vt.ctor)(raw.clone())) else { return Outcome::ok(false, "not-obtainable") };
        // with a custom sanitizer in the chain, idempotence of each function does not make the *chain*
        // idempotent (truncate-then-uppercase); the round trip is only required where the reference
        // model itself maps v to v. Built-in-only chains are checked unconditionally.
        let idempotent = !has_custom_san || matches!(model::construct(m, v.clone()), Ok(ref x) if x.same(&v));
        let j = v.to_json().to_string();
        let special = !j.is_ascii() || j.contains('\\') || j.contains("e") || v.weight() > (1u128 << 60) || j.contains("-0") || v.near_bound(m);
        let class = if special { "value-special" } else { "value-plain" };
        for f in ALL_FMTS {
            let sig = |w: &str| format!("C10|{}|{}|{w}|sans={}|vals={}", I::NAME, fmt_name(f), san_names(m), val_names(m));
            let got = match no_panic(|| ser(raw.clone(), f)) {
                Ok(Some(r)) => r,
                Ok(None) => continue,
                Err(p) => return Outcome::fail(special, class, sig("serialize-panicked"), "bytes".into(), p),
            };
            let reference = ser_ref(v.clone(), f);
            match (&got, &reference) {
                (Ok(a), Ok(b)) if a == b => {}
                (Err(_), Err(_)) => continue, // the format cannot represent the inner value at all
                _ => {
                    return Outcome::fail(
                        special,
                        class,
                        sig("differs-from-serde-newtype-struct"),
                        format!("{:?}", reference.as_ref().map(|b| String::from_utf8_lossy(b).to_string())),
                        format!("{:?}", got.as_ref().map(|b| String::from_utf8_lossy(b).to_string())),
                    )
                }
            }
            let bytes = got.unwrap();
            if f != Fmt::Ron && f != Fmt::RonNamed {
                // transparent: byte-identical to the inner value's own encoding
                if let Ok(inner_bytes) = enc(f, &v) {
                    if inner_bytes != bytes {
                        return Outcome::fail(special, class, sig("not-transparent"), hex(&inner_bytes), hex(&bytes));
                    }
                }
            }
            // round trip, when the inner value itself round-trips in this format
            if let Some(de) = vt.de {
                let inner_rt = match f {
                    Fmt::Ron | Fmt::RonNamed => ser_ref(v.clone(), f).ok().and_then(|b| vt.de_ref.and_then(|d| d(f, Pos::Top, &b).ok())).and_then(|x| x.into_iter().next()),
                    _ => enc(f, &v).ok().and_then(|b| dec::<I>(f, &b).ok()),
                };
                if let Some(back) = inner_rt {
                    if back.same(&v) && idempotent {
                        match no_panic(|| de(f, Pos::Top, &bytes)) {
                            Ok(Ok(r)) if r.len() == 1 && r[0].same(&v) => {}
                            other => {
                                return Outcome::fail(
                                    special,
                                    class,
                                    sig("round-trip-changes-or-loses-value"),
                                    format!("Ok([{}])", v.to_json()),
                                    format!("{:?}", other.map(|r| r.map(|x| x.iter().map(|y| y.to_json()).collect::<Vec<_>>()))),
                                )
                            }
                        }
                    }
                }
            }
        }
        let _ = model::sanitize::<I>;
        Outcome::ok(special, class)
    };
    drive(ctx, &info, &mut rep, I::systematic(m, ctx.tier), Some(I::strategy(m)), ctx.n_random(1000, 50_000), &eval);
    rep
}
