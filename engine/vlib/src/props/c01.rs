//! C01 — constructors compute exactly sanitize-then-validate.

use crate::drive::*;
use crate::inputs::*;
use crate::model;
use crate::report::*;
use crate::types::*;
use serde_json::json;

pub fn san_names<I>(m: &Model<I>) -> String {
    m.sans
        .iter()
        .map(|s| match s {
            San::Trim => "trim".to_string(),
            San::Lower => "lowercase".to_string(),
            San::Upper => "uppercase".to_string(),
            San::With { name, .. } => format!("with:{name}"),
        })
        .collect::<Vec<_>>()
        .join("+")
}

pub fn val_names<I>(m: &Model<I>) -> String {
    match &m.vals {
        Vals::None => "none".into(),
        Vals::Std(v) => v.iter().map(|x| x.kind_name()).collect::<Vec<_>>().join("+"),
        Vals::Custom { name, .. } => format!("custom:{name}"),
    }
}

pub fn show_res<I: InnerTy>(r: &Result<I, ErrR>) -> String {
    match r {
        Ok(v) => format!("Ok({})", v.to_json()),
        Err(e) => format!("Err({})", e.show()),
    }
}

/// compare a constructor-like entry point with the reference model on one raw input
pub fn compare_ctor<I: Inputs>(
    prop: &str,
    what: &str,
    vt: &Vt<I>,
    f: fn(I) -> Result<I, ErrR>,
    raw: &I,
    check_err: bool,
) -> Outcome {
    let m = vt.model;
    let sanitized = model::sanitize(m, raw.clone());
    let expected = model::validate(m, &sanitized).map(|_| sanitized.clone());
    let changed = !sanitized.same(raw);
    let near = raw.near_bound(m) || sanitized.near_bound(m);
    let nontrivial = changed || expected.is_err() || near;
    let class = match (&expected, changed) {
        (Err(_), _) => "rejected",
        (Ok(_), true) => "accepted-sanitized",
        (Ok(_), false) if near => "accepted-near-bound",
        _ => "accepted-plain",
    };
    let actual = no_panic(|| f(raw.clone()));
    let sig = |w: &str, extra: String| {
        if prop == "C02" {
            // C02 signatures name the spelling / layout class, not the inner type
            format!("C02|{what}|{w}|vals={}{extra}", val_names(m))
        } else {
            format!("{prop}|{}|{what}|{w}|sans={}|vals={}{extra}", I::NAME, san_names(m), val_names(m))
        }
    };
    match actual {
        Err(p) => Outcome::fail(nontrivial, class, sig("panic", String::new()), show_res(&expected), format!("panic: {}", p.lines().next().unwrap_or(""))),
        Ok(actual) => match (&expected, &actual) {
            (Ok(e), Ok(a)) if e.same(a) => Outcome::ok(nontrivial, class),
            (Ok(_), Ok(_)) => Outcome::fail(nontrivial, class, sig("wrong-value", String::new()), show_res(&expected), show_res(&actual)),
            (Err(e), Err(a)) => {
                if !check_err || e == a {
                    Outcome::ok(nontrivial, class)
                } else {
                    Outcome::fail(nontrivial, class, sig("wrong-error", String::new()), show_res(&expected), show_res(&actual))
                }
            }
            (Ok(_), Err(a)) => {
                let k = match a {
                    ErrR::Ix(i) => m.std_vals().get(*i).map(|v| v.kind_name()).unwrap_or("?"),
                    ErrR::Custom(_) => "custom",
                };
                Outcome::fail(nontrivial, class, sig("rejected-valid", format!("|by={k}")), show_res(&expected), show_res(&actual))
            }
            (Err(e), Ok(_)) => {
                let k = match e {
                    ErrR::Ix(i) => m.std_vals().get(*i).map(|v| v.kind_name()).unwrap_or("?"),
                    ErrR::Custom(_) => "custom",
                };
                Outcome::fail(nontrivial, class, sig("accepted-invalid", format!("|rule={k}")), show_res(&expected), show_res(&actual))
            }
        },
    }
}

pub fn check<I: Inputs>(vt: &'static Vt<I>, ctx: &Ctx) -> DeclReport {
    let mut rep = DeclReport::new(vt.id);
    let info = DeclInfo::of(vt);
    let m = vt.model;
    let sys = I::systematic(m, ctx.tier);
    rep.exhaustive = I::KIND == Kind::Int && std::mem::size_of::<I>() <= 2;
    let eval = |raw: &I| -> Outcome {
        let o = compare_ctor("C01", "try_new/new", vt, vt.ctor, raw, false);
        if o.fail.is_some() {
            return o;
        }
        // metamorphic: twins (const_fn / generic) agree on every input
        if let Some(tw) = vt.twin {
            let a = no_panic(|| (vt.ctor)(raw.clone()));
            let b = no_panic(|| (tw.ctor)(raw.clone()));
            let same = match (&a, &b) {
                (Ok(Ok(x)), Ok(Ok(y))) => x.same(y),
                (Ok(Err(x)), Ok(Err(y))) => x == y,
                _ => false,
            };
            if !same {
                return Outcome::fail(
                    o.nontrivial,
                    o.class,
                    format!("C01|{}|twin-mismatch|{}", I::NAME, vt.tags.iter().find(|t| t.starts_with("twin:")).copied().unwrap_or("twin")),
                    format!("twin {}: {:?}", tw.id, b.map(|r| show_res(&r))),
                    format!("{:?}", a.map(|r| show_res(&r))),
                );
            }
        }
        o
    };
    drive(ctx, &info, &mut rep, sys, Some(I::strategy(m)), ctx.n_random(2000, 100_000), &eval);

    // thorough tier: ALL 2^32 bit patterns for f32 declarations (DESIGN §5)
    if ctx.tier == Tier::Thorough && ctx.case.is_none() {
        let any_vt: &dyn std::any::Any = vt;
        if let Some(vt32) = any_vt.downcast_ref::<Vt<f32>>() {
            let skip = vt32.tags.iter().any(|t| t.starts_with("float-arb") || t.starts_with("float-single-trait") || t.starts_with("float-default"));
            if !skip {
                exhaustive_f32(vt32, &mut rep);
            }
        }
    }

    // compile-time evaluation (const_fn): results computed by rustc equal run time and the model
    if ctx.case.is_none() {
        if let Some(ce) = vt.const_evals {
            for (raw, res) in ce() {
                rep.evaluations += 1;
                rep.nontrivial += 1;
                rep.class("const-eval");
                let expected = model::construct(m, raw.clone());
                let ok = match (&expected, &res) {
                    (Ok(a), Ok(b)) => a.same(b),
                    (Err(_), Err(_)) => true,
                    _ => false,
                };
                rep.sample("const-eval", json!({"case": raw.to_json(), "const_result": show_res(&res)}));
                if !ok {
                    let mut w = Default::default();
                    rep.viol(
                        Viol {
                            prop: "C01".into(),
                            decl_id: vt.id.into(),
                            type_name: vt.type_name.into(),
                            decl: vt.decl.into(),
                            signature: format!("C01|{}|const-eval-mismatch", I::NAME),
                            case: json!({"const_eval_of": raw.to_json()}),
                            expected: show_res(&expected),
                            actual: show_res(&res),
                            shrunk: "none".into(),
                        },
                        0,
                        &mut w,
                    );
                }
            }
        }
    }
    rep
}


/// every f32 bit pattern through the constructor, compared with the reference model
fn exhaustive_f32(vt: &'static Vt<f32>, rep: &mut DeclReport) {
    let m = vt.model;
    let mut evaluated: u64 = 0;
    let mut nontrivial: u64 = 0;
    let mut first_fail: Option<(f32, String, String, String)> = None;
    let mut fails: u64 = 0;
    for bits in 0..=u32::MAX {
        let raw = f32::from_bits(bits);
        let sanitized = model::sanitize(m, raw);
        let expected = model::validate(m, &sanitized).map(|_| sanitized);
        let actual = no_panic(|| (vt.ctor)(raw));
        evaluated += 1;
        if expected.is_err() || sanitized.to_bits() != bits {
            nontrivial += 1;
        }
        let ok = match (&expected, &actual) {
            (Ok(e), Ok(Ok(a))) => e.to_bits() == a.to_bits(),
            (Err(_), Ok(Err(_))) => true,
            _ => false,
        };
        if !ok {
            fails += 1;
            let better = first_fail.as_ref().map_or(true, |(r, ..)| InnerTy::weight(&raw) < InnerTy::weight(r));
            if better {
                let what = match (&expected, &actual) {
                    (_, Err(_)) => "panic",
                    (Ok(_), Ok(Ok(_))) => "wrong-value",
                    (Ok(_), Ok(Err(_))) => "rejected-valid",
                    _ => "accepted-invalid",
                };
                first_fail = Some((raw, what.to_string(), show_res(&expected), format!("{:?}", actual.as_ref().map(show_res))));
            }
        }
    }
    rep.evaluations += evaluated;
    rep.nontrivial += nontrivial;
    rep.class_n("exhaustive-f32", evaluated);
    rep.exhaustive = true;
    rep.notes.push(format!("all 2^32 f32 bit patterns evaluated ({fails} failing)"));
    if let Some((raw, what, e, a)) = first_fail {
        let mut w = Default::default();
        rep.viol(
            Viol {
                prop: "C01".into(),
                decl_id: vt.id.into(),
                type_name: vt.type_name.into(),
                decl: vt.decl.into(),
                signature: format!("C01|f32|try_new/new|{what}|sans={}|vals={}|exhaustive", san_names(m), val_names(m)),
                case: InnerTy::to_json(&raw),
                expected: e,
                actual: a,
                shrunk: "enumeration-minimum".into(),
            },
            InnerTy::weight(&raw),
            &mut w,
        );
    }
}
