//! C16 — validation error messages state the violated rule truthfully.
//! The Display text is parsed into (relation, bound); the relation, read literally, must
//! hold for exactly the probe values the validator accepts.

use crate::drive::*;
use crate::glue::enc;
use crate::inputs::*;
use crate::model;
use crate::report::*;
use crate::types::*;
use serde_json::json;

#[derive(Clone, Copy, Debug, PartialEq, Eq)]
pub enum Rel {
    Lt,
    Le,
    Gt,
    Ge,
}

/// comparative phrases, longest first
const PHRASES: &[(&str, Rel)] = &[
    ("greater than or equal to", Rel::Ge),
    ("greater or equal to", Rel::Ge),
    ("less than or equal to", Rel::Le),
    ("less or equal to", Rel::Le),
    ("no less than", Rel::Ge),
    ("no more than", Rel::Le),
    ("no greater than", Rel::Le),
    ("not less than", Rel::Ge),
    ("not more than", Rel::Le),
    ("not greater than", Rel::Le),
    ("at least", Rel::Ge),
    ("at most", Rel::Le),
    ("greater than", Rel::Gt),
    ("more than", Rel::Gt),
    ("less than", Rel::Lt),
    ("fewer than", Rel::Lt),
];

pub fn parse_relation(text: &str) -> Option<(Rel, String)> {
    let lower = text.to_lowercase();
    let mut best: Option<(usize, usize, Rel)> = None;
    for (p, r) in PHRASES {
        if let Some(i) = lower.find(p) {
            // earliest occurrence wins; among equal positions the longest phrase (table order)
            if best.map_or(true, |(bi, bl, _)| i < bi || (i == bi && p.len() > bl)) {
                best = Some((i, p.len(), *r));
            }
        }
    }
    let (i, l, r) = best?;
    let rest = text[i + l..].trim_start();
    // the bound: the following token, minus trailing sentence punctuation
    let tok: String = rest.split_whitespace().next().unwrap_or("").trim_end_matches(|c| c == '.' || c == ',' || c == ';').to_string();
    Some((r, tok))
}

fn holds(rel: Rel, ord: Option<std::cmp::Ordering>) -> bool {
    use std::cmp::Ordering::*;
    match (rel, ord) {
        (Rel::Lt, Some(Less)) => true,
        (Rel::Le, Some(Less | Equal)) => true,
        (Rel::Gt, Some(Greater)) => true,
        (Rel::Ge, Some(Greater | Equal)) => true,
        _ => false,
    }
}

/// probe values around a numeric bound (None for non-numeric inner types)
pub trait Probes: Inputs {
    fn probes(_b: &Self) -> Vec<Self> {
        vec![]
    }
    fn parse_bound(_s: &str) -> Option<Self> {
        None
    }
}
macro_rules! probes_int {
    ($($t:ty),*) => {$(
        impl Probes for $t {
            fn probes(b: &Self) -> Vec<Self> {
                let mut v = vec![*b];
                for d in 1..=2 {
                    if let Some(x) = b.checked_sub(d) { v.push(x); }
                    if let Some(x) = b.checked_add(d) { v.push(x); }
                }
                v
            }
            fn parse_bound(s: &str) -> Option<Self> { s.replace('_', "").parse().ok() }
        }
    )*};
}
probes_int!(u8, u16, u32, u64, u128, usize, i8, i16, i32, i64, i128, isize);
macro_rules! probes_float {
    ($t:ty, $w:expr) => {
        impl Probes for $t {
            fn probes(b: &Self) -> Vec<Self> {
                if b.is_nan() {
                    return vec![];
                }
                let k = float_key(b.to_bits() as u64, $w) as i128;
                (-2i128..=2)
                    .filter_map(|d| {
                        let kk = k + d;
                        if kk < 0 || kk > float_key_max($w) as i128 {
                            None
                        } else {
                            Some(<$t>::from_bits(float_unkey(kk as u64, $w) as _))
                        }
                    })
                    // the key line continues into negative NaNs below -inf: not probes
                    .filter(|x: &$t| !x.is_nan())
                    .collect()
            }
            fn parse_bound(s: &str) -> Option<Self> {
                s.replace('_', "").parse().ok()
            }
        }
    };
}
probes_float!(f32, 32);
probes_float!(f64, 64);
impl Probes for String {}
impl Probes for Vec<i32> {}
impl Probes for Point {}
impl Probes for Vec<u8> {}
impl Probes for crate::types::CowF {}

pub fn check<I: Probes>(vt: &'static Vt<I>, ctx: &Ctx) -> DeclReport {
    let Some(err_text) = vt.err_text else { return DeclReport::irrelevant(vt.id) };
    let m = vt.model;
    let vals = m.std_vals();
    if !vals.iter().any(|v| matches!(v, Val::Greater(_) | Val::GreaterEq(_) | Val::Less(_) | Val::LessEq(_) | Val::LenCharMin(_) | Val::LenCharMax(_))) {
        return DeclReport::irrelevant(vt.id);
    }
    let mut rep = DeclReport::new(vt.id);
    let mut w = Default::default();
    let mut push = |rep: &mut DeclReport, sig: String, case: serde_json::Value, expected: String, actual: String| {
        rep.viol(Viol { prop: "C16".into(), decl_id: vt.id.into(), type_name: vt.type_name.into(), decl: vt.decl.into(), signature: sig, case, expected, actual, shrunk: "none".into() }, 0, &mut w);
    };
    if ctx.case.is_some() && ctx.only.is_none() {
        return rep;
    }
    // the texts travel inside FromStr / TryFrom<&str> errors too: an input the constructor admits must not come
    // back from those entry points described as forbidden (case mappings change the number of chars, so the
    // raw text may look too short or too long while the sanitized value is fine)
    if I::KIND == Kind::Str {
        let mut probes: Vec<String> = vec![];
        for n in model::len_bounds(m).into_iter().filter(|n| *n <= 64) {
            for len in n.saturating_sub(3)..=n + 2 {
                for fill in ["ß", "ﬁ", "İ", "ŉ", "a", "Z "] {
                    let core: String = fill.repeat(len);
                    probes.push(core.clone());
                    probes.push(format!(" {core}\u{2003}"));
                    probes.push(format!("{core}a"));
                }
            }
        }
        probes.sort();
        probes.dedup();
        let entries: Vec<(&str, fn(&str) -> Result<I, ErrR>)> = [("FromStr", vt.from_str_s), ("TryFrom<&str>", vt.try_from_str)].into_iter().filter_map(|(n, f)| f.map(|f| (n, f))).collect();
        for p in &probes {
            if entries.is_empty() {
                break;
            }
            let raw = I::from_string_(p.clone());
            let Ok(Ok(_)) = no_panic(|| (vt.ctor)(raw.clone())) else { continue };
            for (name, f) in &entries {
                rep.evaluations += 1;
                rep.nontrivial += 1;
                if let Ok(Err(e)) = no_panic(|| f(p)) {
                    let text = match &e {
                        ErrR::Ix(i) => err_text(*i).unwrap_or_default(),
                        ErrR::Custom(_) => String::new(),
                    };
                    push(
                        &mut rep,
                        format!("C16|{}|admitted-value-described-as-forbidden|via-{name}|sans={}", kind_name::<I>(), crate::props::c01::san_names(m)),
                        json!({"input": p, "error": e.show(), "message": text}),
                        "Ok: the constructor admits this input".into(),
                        format!("Err({}) from {name}: {text}", e.show()),
                    );
                }
            }
        }
        rep.class("string-entry-point-probes");
    }
    for (ix, val) in vals.iter().enumerate() {
        let kind = val.kind_name();
        let is_bound = matches!(val, Val::Greater(_) | Val::GreaterEq(_) | Val::Less(_) | Val::LessEq(_) | Val::LenCharMin(_) | Val::LenCharMax(_));
        if !is_bound {
            continue;
        }
        let Some(text) = err_text(ix) else { continue };
        rep.class(&format!("variant:{kind}"));
        let base = format!("C16|{}|{kind}", kind_name::<I>());
        if !text.contains(vt.type_name) {
            push(&mut rep, format!("{base}|type-name-missing"), json!({"variant_index": ix, "message": text}), format!("message names {}", vt.type_name), text.clone());
        }
        let Some((rel, tok)) = parse_relation(&text) else {
            rep.notes.push(format!("no comparative phrase recognised in {text:?} (inconclusive for variant {ix})"));
            rep.class("unparsed-message");
            continue;
        };
        // evaluate the stated relation at the probes and compare with the validator's verdict
        let mut mismatches: Vec<serde_json::Value> = vec![];
        let mut probes_n = 0;
        match val {
            Val::Greater(b) | Val::GreaterEq(b) | Val::Less(b) | Val::LessEq(b) => {
                // the bound named in the message must denote the declared bound
                match I::parse_bound(&tok) {
                    Some(sb) if sb.pcmp(b) == Some(std::cmp::Ordering::Equal) => {}
                    _ => push(&mut rep, format!("{base}|bound-not-stated"), json!({"variant_index": ix, "message": text, "declared_bound": b.to_json()}), format!("message states bound {}", b.to_json()), format!("states {tok:?}")),
                }
                // a range stated anywhere in the text (`A..=B`, `A..B`), read literally, is the set of values the
                // bound rules admit
                for tokn in text.split_whitespace().map(|t| t.trim_end_matches(|c| c == '.' || c == ',' || c == ';' || c == ')').trim_start_matches('(')) {
                    let Some(pos) = tokn.find("..") else { continue };
                    let (l, r) = (&tokn[..pos], &tokn[pos + 2..]);
                    let (incl, r) = match r.strip_prefix('=') {
                        Some(r) => (true, r),
                        None => (false, r),
                    };
                    let (Some(lo), Some(hi)) = (I::parse_bound(l), I::parse_bound(r)) else { continue };
                    let bound_rules: Vec<&Val<I>> = vals.iter().filter(|v| matches!(v, Val::Greater(_) | Val::GreaterEq(_) | Val::Less(_) | Val::LessEq(_))).collect();
                    let mut xs: Vec<I> = I::probes(&lo);
                    xs.extend(I::probes(&hi));
                    for v in &bound_rules {
                        if let Val::Greater(b) | Val::GreaterEq(b) | Val::Less(b) | Val::LessEq(b) = v {
                            xs.extend(I::probes(b));
                        }
                    }
                    for x in xs {
                        probes_n += 1;
                        let in_stated = matches!(x.pcmp(&lo), Some(std::cmp::Ordering::Greater | std::cmp::Ordering::Equal))
                            && (x.pcmp(&hi) == Some(std::cmp::Ordering::Less) || (incl && x.pcmp(&hi) == Some(std::cmp::Ordering::Equal)));
                        let admitted = bound_rules.iter().all(|v| model::satisfies(v, &x));
                        if in_stated != admitted {
                            push(
                                &mut rep,
                                format!("{base}|stated-range-differs-from-valid-set"),
                                json!({"variant_index": ix, "message": text, "stated_range": tokn, "probe": x.to_json(), "in_stated_range": in_stated, "bound_rules_admit": admitted}),
                                "a stated range that holds exactly the values the bound rules admit".into(),
                                format!("{tokn}: probe {} is {} the stated range but {} by the rules", x.to_json(), if in_stated { "inside" } else { "outside" }, if admitted { "admitted" } else { "rejected" }),
                            );
                            break;
                        }
                    }
                }
                for x in I::probes(b) {
                    probes_n += 1;
                    let accepted = rule_verdict(vt, ix, val, &x);
                    let stated = holds(rel, x.pcmp(b));
                    if at_bound(&x, b) {
                        rep.nontrivial += 1;
                    }
                    if accepted != stated {
                        mismatches.push(json!({"probe": x.to_json(), "validator_accepts": accepted, "message_relation_holds": stated}));
                    }
                }
            }
            Val::LenCharMin(n) | Val::LenCharMax(n) => {
                match tok.parse::<usize>() {
                    Ok(sb) if sb == *n => {}
                    _ => push(&mut rep, format!("{base}|bound-not-stated"), json!({"variant_index": ix, "message": text, "declared_bound": n}), format!("message states bound {n}"), format!("states {tok:?}")),
                }
                // (a bound like usize::MAX has no neighbourhood that fits in memory)
                for len in n.saturating_sub(2)..=if *n > 4096 { 0 } else { n + 2 } {
                    probes_n += 1;
                    // multi-byte fill: char count and byte count differ
                    let s = I::from_string_(["ß", "日", "😀"][len % 3].repeat(len));
                    let accepted = rule_verdict(vt, ix, val, &s);
                    let stated = holds(rel, Some(len.cmp(n)));
                    if len == *n {
                        rep.nontrivial += 1;
                    }
                    if accepted != stated {
                        mismatches.push(json!({"probe_len_chars": len, "validator_accepts": accepted, "message_relation_holds": stated}));
                    }
                }
            }
            _ => {}
        }
        rep.evaluations += probes_n;
        rep.sample(&format!("variant:{kind}"), json!({"case": {"variant_index": ix, "message": text, "parsed_relation": format!("{rel:?}"), "parsed_bound": tok, "probes": probes_n}}));
        if !mismatches.is_empty() {
            push(
                &mut rep,
                format!("{base}|stated={rel:?}"),
                json!({"variant_index": ix, "message": text, "mismatches": mismatches}),
                format!("a relation accepted by exactly the values `{kind}` accepts"),
                format!("message says {rel:?} {tok}"),
            );
        }
        // the same text is embedded in serde and FromStr errors
        if let (Some(de), Some(bad)) = (vt.de, find_violating::<I>(vt, ix)) {
            // only documents that carry the value at all: JSON has no text for non-finite floats (`null`), and
            // such a document fails in the inner type's own deserializer before any validator runs
            let carried = |doc: &[u8]| matches!(vt.de_ref.map(|f| f(Fmt::Json, Pos::Top, doc)), Some(Ok(ref v)) if v.first().is_some_and(|x| x.same(&bad)));
            if let Some(doc) = enc(Fmt::Json, &bad).ok().filter(|d| carried(d)) {
                rep.evaluations += 1;
                if let Ok(Err(e)) = no_panic(|| de(Fmt::Json, Pos::Top, &doc)) {
                    if !e.contains(&text) {
                        push(&mut rep, format!("{base}|serde-error-does-not-embed-message"), json!({"variant_index": ix, "document": String::from_utf8_lossy(&doc)}), text.clone(), e);
                    }
                }
            }
        }
        if let (Some(fse), Some(bad)) = (vt.from_str_err_text, find_violating::<I>(vt, ix)) {
            if let Some(s) = bad.display_() {
                rep.evaluations += 1;
                if let Ok(Some(e)) = no_panic(|| fse(&s)) {
                    if !e.contains(&text) {
                        push(&mut rep, format!("{base}|fromstr-error-does-not-embed-message"), json!({"variant_index": ix, "string": s}), text.clone(), e);
                    }
                }
            }
        }
    }
    rep
}

fn at_bound<I: InnerTy>(x: &I, b: &I) -> bool {
    x.pcmp(b) == Some(std::cmp::Ordering::Equal)
}

/// a raw value for which the constructor reports exactly variant `ix`
fn find_violating<I: Inputs>(vt: &Vt<I>, ix: usize) -> Option<I> {
    I::systematic(vt.model, Tier::Quick).into_iter().find(|v| matches!(no_panic(|| (vt.ctor)(v.clone())), Ok(Err(ErrR::Ix(i))) if i == ix))
}

fn kind_name<I: InnerTy>() -> &'static str {
    match I::KIND {
        Kind::Int => "integer",
        Kind::Float => "float",
        Kind::Str => "string",
        Kind::Other => "other",
    }
}

/// Does the *implementation* accept `x` as far as rule `ix` is concerned? The constructor's verdict is
/// used whenever it isolates the rule (no sanitizers, every other declared rule satisfied by `x` according
/// to the reference model); otherwise the reference model's verdict for the rule stands in.
fn rule_verdict<I: Inputs>(vt: &Vt<I>, ix: usize, val: &Val<I>, x: &I) -> bool {
    let m = vt.model;
    let others_ok = m.std_vals().iter().enumerate().all(|(j, v)| j == ix || model::satisfies(v, x));
    if m.sans.is_empty() && others_ok {
        match no_panic(|| (vt.ctor)(x.clone())) {
            Ok(Ok(_)) => return true,
            Ok(Err(ErrR::Ix(j))) if j == ix => return false,
            _ => {}
        }
    }
    model::satisfies(val, x)
}
