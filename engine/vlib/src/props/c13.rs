//! C13 — views and comparison traits are transparent to the inner value.

use crate::drive::*;
use crate::inputs::*;
use crate::model;
use crate::props::c01::{san_names, val_names};
use crate::report::*;
use crate::types::*;
use proptest::prelude::*;

fn pick_values<I: Inputs>(vt: &Vt<I>, ctx: &Ctx, cap: usize) -> Vec<I> {
    // prefer inputs that are interesting as comparison operands: near bounds, changed by sanitising
    let m = vt.model;
    let all = I::systematic(m, ctx.tier);
    let mut near: Vec<I> = vec![];
    let mut rest: Vec<I> = vec![];
    for v in all {
        let s = model::sanitize(m, v.clone());
        if v.near_bound(m) || !s.same(&v) {
            near.push(v);
        } else {
            rest.push(v);
        }
    }
    let mut out = vec![];
    let step_n = (near.len() / (cap * 2 / 3).max(1)).max(1);
    out.extend(near.into_iter().step_by(step_n).take(cap * 2 / 3));
    let step_r = (rest.len() / (cap / 3).max(1)).max(1);
    out.extend(rest.into_iter().step_by(step_r).take(cap / 3));
    out
}

pub fn check<I: Inputs>(vt: &'static Vt<I>, ctx: &Ctx) -> DeclReport {
    let any_single = vt.as_ref.is_some()
        || vt.deref.is_some()
        || vt.borrow.is_some()
        || vt.borrow2.is_some()
        || vt.into.is_some()
        || vt.clone.is_some()
        || vt.eq_self.is_some()
        || vt.copy.is_some()
        || vt.display.is_some()
        || vt.hash.is_some()
        || vt.into_iter.is_some()
        || vt.iter_ref.is_some()
        || vt.hashmap_borrow.is_some();
    let any_pair = vt.eq.is_some() || vt.partial_cmp.is_some() || vt.cmp.is_some() || vt.cmp_ops.is_some();
    if !any_single && !any_pair {
        return DeclReport::irrelevant(vt.id);
    }
    let mut rep = DeclReport::new(vt.id);
    let info = DeclInfo::of(vt);
    let m = vt.model;
    let sig = |op: &str, w: &str| format!("C13|{}|{op}|{w}|sans={}|vals={}", I::NAME, san_names(m), val_names(m));

    // single-value operations
    let eval1 = |raw: &I| -> Outcome {
        let Ok(Ok(inner)) = no_panic(|| (vt.ctor)(raw.clone())) else {
            return Outcome::ok(false, "not-obtainable");
        };
        let changed = !inner.same(raw);
        let class = if changed { "value-sanitized" } else { "value-plain" };
        let nontrivial = changed || raw.near_bound(m);
        macro_rules! view {
            ($name:literal, $f:expr) => {
                if let Some(f) = $f {
                    match no_panic(|| f(raw.clone())) {
                        Ok(Some(v)) if v.same(&inner) => {}
                        Ok(Some(v)) => return Outcome::fail(nontrivial, class, sig($name, "differs-from-inner"), format!("{}", inner.to_json()), format!("{}", v.to_json())),
                        Ok(None) => return Outcome::fail(nontrivial, class, sig($name, "value-not-rebuilt"), format!("{}", inner.to_json()), "None".into()),
                        Err(p) => return Outcome::fail(nontrivial, class, sig($name, "panic"), format!("{}", inner.to_json()), format!("panic: {}", p.lines().next().unwrap_or(""))),
                    }
                }
            };
        }
        view!("AsRef", vt.as_ref);
        view!("Deref", vt.deref);
        view!("Borrow", vt.borrow);
        view!("Borrow<String>", vt.borrow2);
        view!("Into", vt.into);
        view!("Clone", vt.clone);
        view!("Copy", vt.copy);
        if let Some(f) = vt.display {
            let exp = inner.display_all_();
            match no_panic(|| f(raw.clone())) {
                Ok(got) if got == exp || exp.is_none() => {}
                Ok(got) => return Outcome::fail(nontrivial, class, sig("Display", "differs-from-inner"), format!("{exp:?}"), format!("{got:?}")),
                Err(p) => return Outcome::fail(nontrivial, class, sig("Display", "panic"), format!("{exp:?}"), format!("panic: {p}")),
            }
        }
        // one object on both sides: the answers of the inner value compared with itself (not reflexive for NaN)
        if let Some(f) = vt.eq_self {
            let exp = inner.inner_eq(&inner);
            match no_panic(|| f(raw.clone())) {
                Ok(Some((eq, ne))) if eq == exp && ne == !exp => {}
                other => return Outcome::fail(true, class, sig("PartialEq", "self-comparison-differs-from-inner"), format!("(== {exp}, != {})", !exp), format!("{other:?}")),
            }
        }
        if let Some(f) = vt.partial_cmp_self {
            if let Some(exp) = inner.inner_partial_cmp(&inner) {
                match no_panic(|| f(raw.clone())) {
                    Ok(Some(g)) if g == exp => {}
                    other => return Outcome::fail(true, class, sig("PartialOrd", "self-comparison-differs-from-inner"), format!("{exp:?}"), format!("{other:?}")),
                }
            }
        }
        if let Some(f) = vt.hash {
            if let Some(exp) = inner.hash_borrowed() {
                match no_panic(|| f(raw.clone())) {
                    Ok(Some(h)) if h == exp => {}
                    Ok(h) => return Outcome::fail(nontrivial, class, sig("Hash", "differs-from-borrowed-form"), format!("{exp:#x}"), format!("{h:x?}")),
                    Err(p) => return Outcome::fail(nontrivial, class, sig("Hash", "panic"), format!("{exp:#x}"), format!("panic: {p}")),
                }
            }
        }
        if let Some(f) = vt.hashmap_borrow {
            match no_panic(|| f(raw.clone())) {
                Ok(Some(true)) => {}
                other => return Outcome::fail(nontrivial, class, sig("HashMap-lookup-through-Borrow", "key-not-found"), "Some(true)".into(), format!("{other:?}")),
            }
        }
        macro_rules! iter {
            ($name:literal, $f:expr) => {
                if let Some(f) = $f {
                    let exp: Vec<i32> = serde_json::from_value(inner.to_json()).unwrap_or_default();
                    match no_panic(|| f(raw.clone())) {
                        Ok(Some(v)) if v == exp => {}
                        other => return Outcome::fail(nontrivial, class, sig($name, "differs-from-inner"), format!("{exp:?}"), format!("{other:?}")),
                    }
                }
            };
        }
        iter!("IntoIterator", vt.into_iter);
        iter!("IntoIterator-by-ref", vt.iter_ref);
        Outcome::ok(nontrivial, class)
    };
    if any_single {
        drive(ctx, &info, &mut rep, I::systematic(m, ctx.tier), Some(I::strategy(m)), ctx.n_random(500, 20_000), &eval1);
    }

    // pair operations
    if any_pair {
        let eval2 = |p: &Pair<I>| -> Outcome {
            let (Ok(Ok(a)), Ok(Ok(b))) = (no_panic(|| (vt.ctor)(p.0.clone())), no_panic(|| (vt.ctor)(p.1.clone()))) else {
                return Outcome::ok(false, "pair-not-obtainable");
            };
            let raw_differs = !p.0.same(&p.1);
            let equal_after = a.same(&b);
            let class = if raw_differs && equal_after {
                "pair-equal-after-sanitising"
            } else if equal_after {
                "pair-identical"
            } else {
                "pair-different"
            };
            let nontrivial = (raw_differs && equal_after) || p.0.near_bound(m) || p.1.near_bound(m);
            if let Some(f) = vt.eq {
                let exp = a.inner_eq(&b);
                match no_panic(|| f(p.0.clone(), p.1.clone())) {
                    Ok(Some(g)) if g == exp => {}
                    other => return Outcome::fail(nontrivial, class, sig("PartialEq", "differs-from-inner"), format!("{exp}"), format!("{other:?}")),
                }
            }
            if let Some(f) = vt.partial_cmp {
                if let Some(exp) = a.inner_partial_cmp(&b) {
                    match no_panic(|| f(p.0.clone(), p.1.clone())) {
                        Ok(Some(g)) if g == exp => {}
                        other => return Outcome::fail(nontrivial, class, sig("PartialOrd", "differs-from-inner"), format!("{exp:?}"), format!("{other:?}")),
                    }
                }
            }
            // the operators, not only `partial_cmp`: what the inner values answer to <, <=, >, >=, !=
            if let Some(f) = vt.cmp_ops {
                if let Some(pc) = a.inner_partial_cmp(&b) {
                    use std::cmp::Ordering::*;
                    let exp = [pc == Some(Less), matches!(pc, Some(Less | Equal)), pc == Some(Greater), matches!(pc, Some(Greater | Equal)), !a.inner_eq(&b)];
                    match no_panic(|| f(p.0.clone(), p.1.clone())) {
                        Ok(Some(g)) if g == exp => {}
                        other => return Outcome::fail(nontrivial, class, sig("PartialOrd", "operators-differ-from-inner"), format!("[<, <=, >, >=, !=] = {exp:?}"), format!("{other:?}")),
                    }
                }
            }
            if let Some(f) = vt.ord_minmax {
                if let Some((hi, lo)) = a.inner_max_min(&b) {
                    match no_panic(|| f(p.0.clone(), p.1.clone())) {
                        Ok(Some((gh, gl))) if gh.inner_eq(&hi) && gl.inner_eq(&lo) => {}
                        other => return Outcome::fail(nontrivial, class, sig("Ord", "max-min-differ-from-inner"), format!("({}, {})", hi.to_json(), lo.to_json()), format!("{:?}", other.map(|o| o.map(|(x, y)| (x.to_json(), y.to_json()))))),
                    }
                }
            }
            if let Some(f) = vt.cmp {
                if let Some(exp) = a.inner_cmp(&b) {
                    match no_panic(|| f(p.0.clone(), p.1.clone())) {
                        Ok(Some(g)) if g == exp => {}
                        other => return Outcome::fail(nontrivial, class, sig("Ord", "differs-from-inner"), format!("{exp:?}"), format!("{other:?}")),
                    }
                }
            }
            Outcome::ok(nontrivial, class)
        };
        let vals = pick_values(vt, ctx, if ctx.quick() { 36 } else { 120 });
        let mut pairs = Vec::with_capacity(vals.len() * vals.len());
        for a in &vals {
            for b in &vals {
                pairs.push(Pair(a.clone(), b.clone()));
            }
        }
        let s = I::strategy(m);
        let strat = prop_oneof![(s.clone(), s.clone()).prop_map(|(a, b)| Pair(a, b)), s.prop_map(|a| Pair(a.clone(), a))].boxed();
        drive(ctx, &info, &mut rep, pairs, Some(strat), ctx.n_random(500, 50_000), &eval2);
    }
    rep
}
