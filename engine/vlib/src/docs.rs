//! Document generator for C04: a small value tree (`Dv`) that serialises through serde
//! into JSON, RON and MessagePack alike, with explicit control over the integer / float
//! width used (so the same value is produced at every MessagePack marker) and over
//! newtype wrapping (so RON sees `Name(v)`), plus raw JSON/RON text variants.

use crate::types::*;
use serde::ser::{SerializeMap, SerializeSeq, SerializeStruct, Serializer};
use serde::Serialize;

#[derive(Clone, Debug)]
pub enum Dv {
    U(u128, u8), // value, width in bits (8,16,32,64,128)
    I(i128, u8),
    F32(f32),
    F64(f64),
    S(String),
    Bytes(Vec<u8>),
    Bool(bool),
    Unit,
    None,
    Some(Box<Dv>),
    Newtype(&'static str, Box<Dv>),
    Seq(Vec<Dv>),
    Map(Vec<(Dv, Dv)>),
    /// struct Holder { a, b }
    Holder(Box<Dv>),
    /// struct Point { x, y }
    Point(i64, i64),
}

impl Serialize for Dv {
    fn serialize<S: Serializer>(&self, s: S) -> Result<S::Ok, S::Error> {
        match self {
            Dv::U(v, 8) => s.serialize_u8(*v as u8),
            Dv::U(v, 16) => s.serialize_u16(*v as u16),
            Dv::U(v, 32) => s.serialize_u32(*v as u32),
            Dv::U(v, 64) => s.serialize_u64(*v as u64),
            Dv::U(v, _) => s.serialize_u128(*v),
            Dv::I(v, 8) => s.serialize_i8(*v as i8),
            Dv::I(v, 16) => s.serialize_i16(*v as i16),
            Dv::I(v, 32) => s.serialize_i32(*v as i32),
            Dv::I(v, 64) => s.serialize_i64(*v as i64),
            Dv::I(v, _) => s.serialize_i128(*v),
            Dv::F32(v) => s.serialize_f32(*v),
            Dv::F64(v) => s.serialize_f64(*v),
            Dv::S(v) => s.serialize_str(v),
            Dv::Bytes(b) => s.serialize_bytes(b),
            Dv::Bool(b) => s.serialize_bool(*b),
            Dv::Unit => s.serialize_unit(),
            Dv::None => s.serialize_none(),
            Dv::Some(v) => s.serialize_some(&**v),
            Dv::Newtype(n, v) => s.serialize_newtype_struct(n, &**v),
            Dv::Seq(v) => {
                let mut q = s.serialize_seq(Some(v.len()))?;
                for x in v {
                    q.serialize_element(x)?;
                }
                q.end()
            }
            Dv::Map(v) => {
                let mut q = s.serialize_map(Some(v.len()))?;
                for (k, x) in v {
                    q.serialize_entry(k, x)?;
                }
                q.end()
            }
            Dv::Holder(a) => {
                let mut q = s.serialize_struct("Holder", 2)?;
                q.serialize_field("a", &**a)?;
                q.serialize_field("b", &1u8)?;
                q.end()
            }
            // Point's own two wire forms (text for human-readable formats, a pair for binary ones)
            Dv::Point(x, y) => {
                if s.is_human_readable() {
                    s.serialize_str(&format!("{x};{y}"))
                } else {
                    use serde::ser::SerializeTuple;
                    let mut q = s.serialize_tuple(2)?;
                    q.serialize_element(x)?;
                    q.serialize_element(y)?;
                    q.end()
                }
            }
        }
    }
}

/// place `v` (already wrapped as the newtype would be) at position `p`
pub fn at(p: Pos, v: Dv, filler: Dv) -> Dv {
    match p {
        Pos::Top => v,
        Pos::Vec => Dv::Seq(vec![filler.clone(), v, filler]),
        Pos::Opt => Dv::Some(Box::new(v)),
        Pos::Field => Dv::Holder(Box::new(v)),
        Pos::MapVal => Dv::Map(vec![(Dv::S("k1".into()), filler), (Dv::S("k2".into()), v)]),
        Pos::MapKey => Dv::Map(vec![(v, Dv::U(1, 8))]),
    }
}

/// alternative encodings of one inner value: the faithful one first, then other widths /
/// kinds that carry "the same" or a nearby value, then wrongly-typed documents
pub fn encodings_of<I: InnerTy>(v: &I) -> Vec<Dv> {
    let j = v.to_json();
    let mut out: Vec<Dv> = vec![];
    match I::KIND {
        Kind::Int => {
            let s = j.as_str().unwrap_or("0");
            if let Ok(i) = s.parse::<i128>() {
                for w in [8u8, 16, 32, 64, 128] {
                    let fits_i = w == 128 || (i >= -(1i128 << (w - 1)) && i < (1i128 << (w - 1)));
                    if fits_i {
                        out.push(Dv::I(i, w));
                    }
                    let fits_u = i >= 0 && (w == 128 || i < (1i128 << w));
                    if fits_u {
                        out.push(Dv::U(i as u128, w));
                    }
                }
                out.push(Dv::F64(i as f64));
                out.push(Dv::F32(i as f32));
                out.push(Dv::S(s.to_string()));
            } else if let Ok(u) = s.parse::<u128>() {
                out.push(Dv::U(u, 128));
                out.push(Dv::S(s.to_string()));
            }
        }
        Kind::Float => {
            let bits = j.get("bits").and_then(|b| b.as_str()).unwrap_or("0x0");
            let b = u64::from_str_radix(bits.trim_start_matches("0x"), 16).unwrap_or(0);
            let (f32v, f64v) = if I::NAME == "f32" {
                let f = f32::from_bits(b as u32);
                (f, f as f64)
            } else {
                let f = f64::from_bits(b);
                (f as f32, f)
            };
            if I::NAME == "f32" {
                out.push(Dv::F32(f32v));
                out.push(Dv::F64(f64v));
            } else {
                out.push(Dv::F64(f64v));
                out.push(Dv::F32(f32v));
            }
            if f64v.fract() == 0.0 && f64v.abs() < 1e18 {
                out.push(Dv::I(f64v as i128, 64));
                if f64v >= 0.0 {
                    out.push(Dv::U(f64v as u128, 64));
                }
            }
            out.push(Dv::S(format!("{f64v}")));
        }
        Kind::Str => {
            let s = j.get("s").and_then(|s| s.as_str()).unwrap_or("").to_string();
            out.push(Dv::S(s.clone()));
            out.push(Dv::Bytes(s.clone().into_bytes()));
            out.push(Dv::Seq(s.chars().map(|c| Dv::S(c.to_string())).collect()));
            if let Ok(n) = s.trim().parse::<i64>() {
                out.push(Dv::I(n as i128, 64));
            }
        }
        Kind::Other => {
            if I::NAME == "Point" {
                let x = j.get("x").and_then(|x| x.as_i64()).unwrap_or(0);
                let y = j.get("y").and_then(|x| x.as_i64()).unwrap_or(0);
                out.push(Dv::Point(x, y));
                out.push(Dv::Seq(vec![Dv::I(x as i128, 16), Dv::I(y as i128, 16)]));
                out.push(Dv::Map(vec![(Dv::S("x".into()), Dv::I(x as i128, 64)), (Dv::S("y".into()), Dv::I(y as i128, 64))]));
                out.push(Dv::Map(vec![(Dv::S("x".into()), Dv::I(x as i128, 64))]));
                out.push(Dv::Point(x + 70_000, y));
            } else if I::NAME == "Vec<u8>" {
                let a: Vec<u8> = j.as_array().map(|a| a.iter().filter_map(|x| x.as_u64()).map(|x| x as u8).collect()).unwrap_or_default();
                out.push(Dv::Seq(a.iter().map(|x| Dv::U(*x as u128, 8)).collect()));
                // the other representation serde has for the same data, and its neighbours
                out.push(Dv::Bytes(a.clone()));
                out.push(Dv::S(String::from_utf8_lossy(&a).to_string()));
                out.push(Dv::Seq(a.iter().map(|x| Dv::I(*x as i128, 64)).collect()));
                out.push(Dv::Seq(a.iter().map(|x| Dv::U(*x as u128 + 256, 16)).collect()));
                out.push(Dv::Seq(a.iter().map(|x| Dv::F64(*x as f64)).collect()));
            } else if I::NAME == "Cow<[f32]>" {
                let a: Vec<f32> = j
                    .get("bits")
                    .and_then(|b| b.as_array())
                    .map(|a| a.iter().filter_map(|x| x.as_str().and_then(|s| u32::from_str_radix(s.trim_start_matches("0x"), 16).ok())).map(f32::from_bits).collect())
                    .unwrap_or_default();
                out.push(Dv::Seq(a.iter().map(|x| Dv::F32(*x)).collect()));
                out.push(Dv::Seq(a.iter().map(|x| Dv::F64(*x as f64)).collect()));
                out.push(Dv::Seq(a.iter().map(|x| Dv::F64(*x as f64 * 1e30)).collect()));
                if a.iter().all(|x| x.fract() == 0.0 && x.abs() < 1e9) {
                    out.push(Dv::Seq(a.iter().map(|x| Dv::I(*x as i128, 32)).collect()));
                }
                out.push(Dv::Seq(a.iter().map(|x| Dv::S(format!("{x}"))).collect()));
            } else {
                let a: Vec<i64> = j.as_array().map(|a| a.iter().filter_map(|x| x.as_i64()).collect()).unwrap_or_default();
                out.push(Dv::Seq(a.iter().map(|x| Dv::I(*x as i128, 32)).collect()));
                out.push(Dv::Seq(a.iter().map(|x| Dv::I(*x as i128, 64)).collect()));
                out.push(Dv::Seq(a.iter().map(|x| Dv::F64(*x as f64)).collect()));
                out.push(Dv::Seq(a.iter().map(|x| Dv::I(*x as i128 + (1 << 40), 64)).collect()));
                out.push(Dv::Bytes(a.iter().map(|x| *x as u8).collect()));
            }
        }
    }
    // wrongly typed
    out.push(Dv::None);
    out.push(Dv::Bool(true));
    out.push(Dv::Unit);
    out.push(Dv::Seq(vec![]));
    out.push(Dv::Map(vec![]));
    out
}

/// raw JSON texts for a number spelled in unusual but lexically interesting ways
pub fn json_number_variants(dec: &str) -> Vec<String> {
    let mut v = vec![
        dec.to_string(),
        format!(" {dec} "),
        format!("\n{dec}\t"),
        format!("{dec}.0"),
        format!("{dec}.00000000000000000000000001"),
        format!("{dec}e0"),
        format!("{dec}E+0"),
        format!("{dec}e-0"),
        format!("0{dec}"),
        format!("+{dec}"),
        format!("\"{dec}\""),
        format!("[{dec}]"),
        format!("{{\"0\":{dec}}}"),
        format!("{dec},"),
        format!("{dec} {dec}"),
        format!("{dec}x"),
    ];
    if let Some(stripped) = dec.strip_prefix('-') {
        v.push(format!("- {stripped}"));
        v.push(format!("-0{stripped}"));
    } else {
        v.push(format!("-{dec}"));
    }
    v
}
