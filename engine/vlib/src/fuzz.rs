//! Body of the libFuzzer target (thorough tier): coverage-guided bytes are decoded into
//! (property, declaration, case) and evaluated with the same single-case oracles the
//! property checks use. A failing case that is not a listed known finding panics with a
//! `VERIF-VIOLATION {json}` line, which libFuzzer records as a crash with the input saved.
//!
//! Input layout: [0] property selector, [1..3] declaration index (LE), rest payload.

use crate::drive::{Bytes, Case, Outcome, Text, QUIET};
use crate::inputs::Inputs;
use crate::props;
use crate::props::c04::Doc;
use crate::types::*;
use crate::with_entry;
use serde_json::json;
use std::sync::OnceLock;

pub trait FromFuzz: Sized {
    fn from_fuzz(b: &[u8]) -> Option<Self>;
}
macro_rules! ff_int {
    ($($t:ty),*) => {$(
        impl FromFuzz for $t {
            fn from_fuzz(b: &[u8]) -> Option<Self> {
                let mut a = [0u8; std::mem::size_of::<$t>()];
                let n = b.len().min(a.len());
                a[..n].copy_from_slice(&b[..n]);
                Some(<$t>::from_le_bytes(a))
            }
        }
    )*};
}
ff_int!(u8, u16, u32, u64, u128, usize, i8, i16, i32, i64, i128, isize);
impl FromFuzz for f32 {
    fn from_fuzz(b: &[u8]) -> Option<Self> {
        u32::from_fuzz(b).map(f32::from_bits)
    }
}
impl FromFuzz for f64 {
    fn from_fuzz(b: &[u8]) -> Option<Self> {
        u64::from_fuzz(b).map(f64::from_bits)
    }
}
impl FromFuzz for String {
    fn from_fuzz(b: &[u8]) -> Option<Self> {
        Some(String::from_utf8_lossy(b).into_owned())
    }
}
impl FromFuzz for Vec<i32> {
    fn from_fuzz(b: &[u8]) -> Option<Self> {
        Some(b.chunks(4).take(16).map(|c| i32::from_fuzz(c).unwrap()).collect())
    }
}
impl FromFuzz for crate::types::CowF {
    fn from_fuzz(b: &[u8]) -> Option<Self> {
        Some(std::borrow::Cow::Owned(b.chunks(4).take(16).map(|c| f32::from_fuzz(c).unwrap()).collect()))
    }
}
impl FromFuzz for Vec<u8> {
    fn from_fuzz(b: &[u8]) -> Option<Self> {
        Some(b.iter().copied().take(64).collect())
    }
}
impl FromFuzz for Point {
    fn from_fuzz(b: &[u8]) -> Option<Self> {
        Some(Point { x: i16::from_fuzz(b).unwrap(), y: i16::from_fuzz(b.get(2..).unwrap_or(&[])).unwrap() })
    }
}

pub trait FuzzInner: Inputs + FromFuzz {}
impl<T: Inputs + FromFuzz> FuzzInner for T {}

static KNOWN: OnceLock<Vec<(String, String)>> = OnceLock::new();

fn known() -> &'static Vec<(String, String)> {
    KNOWN.get_or_init(|| {
        let mut v = vec![];
        if let Ok(p) = std::env::var("VERIF_KNOWN_FINDINGS") {
            if let Ok(s) = std::fs::read_to_string(p) {
                if let Ok(j) = serde_json::from_str::<serde_json::Value>(&s) {
                    for f in j["findings"].as_array().cloned().unwrap_or_default() {
                        v.push((f["property"].as_str().unwrap_or("").to_string(), f["signature"].as_str().unwrap_or("").to_string()));
                    }
                }
            }
        }
        v
    })
}

fn glob_match(pat: &str, s: &str) -> bool {
    let parts: Vec<&str> = pat.split('*').collect();
    if parts.len() == 1 {
        return pat == s;
    }
    let mut pos = 0usize;
    for (i, p) in parts.iter().enumerate() {
        if i == 0 {
            if !s.starts_with(p) {
                return false;
            }
            pos = p.len();
        } else if i == parts.len() - 1 {
            return s.len() >= pos + p.len() && s[pos..].ends_with(p);
        } else {
            match s[pos..].find(p) {
                Some(j) => pos += j + p.len(),
                None => return false,
            }
        }
    }
    true
}

static HOOK: OnceLock<()> = OnceLock::new();

/// libfuzzer-sys aborts on every panic, including the ones our oracles catch on purpose;
/// wrap its hook so that panics inside `no_panic` stay silent and non-fatal
fn install_hook() {
    HOOK.get_or_init(|| {
        let theirs = std::panic::take_hook();
        std::panic::set_hook(Box::new(move |info| {
            if QUIET.with(|q| q.get()) == 0 {
                theirs(info);
            }
        }));
    });
}

fn one<I: FuzzInner>(vt: &'static Vt<I>, sel: u8, payload: &[u8]) -> Option<(String, serde_json::Value, Outcome)> {
    match sel % 4 {
        0 => {
            let raw = I::from_fuzz(payload)?;
            Some(("C01".into(), InnerTy::to_json(&raw), props::c01::compare_ctor("C01", "try_new/new", vt, vt.ctor, &raw, false)))
        }
        1 => {
            vt.de?;
            let fmt = FMTS[*payload.first()? as usize % 3];
            let pos = [Pos::Top, Pos::Vec, Pos::Opt, Pos::Field, Pos::MapVal][*payload.get(1)? as usize % 5];
            let d = Doc { fmt, pos, bytes: payload[2..].to_vec() };
            Some(("C04".into(), d.to_json(), props::c04::eval_doc(vt, &d)))
        }
        2 => {
            vt.from_str?;
            let t = Text(String::from_utf8_lossy(payload).into_owned());
            Some(("C06".into(), t.to_json(), props::c06::eval_text(vt, &t)))
        }
        _ => {
            vt.arbitrary?;
            // C09 quantifies over declarations whose valid set is non-empty
            if !nonempty(vt) {
                return None;
            }
            let b = Bytes(payload.to_vec());
            Some(("C09".into(), b.to_json(), props::c09::eval_bytes(vt, &b)))
        }
    }
}

thread_local! {
    static NONEMPTY: std::cell::RefCell<std::collections::HashMap<&'static str, bool>> = Default::default();
}

fn nonempty<I: FuzzInner>(vt: &'static Vt<I>) -> bool {
    NONEMPTY.with(|c| {
        *c.borrow_mut().entry(vt.id).or_insert_with(|| {
            let ctx = crate::report::Ctx { prop: "C09".into(), tier: crate::inputs::Tier::Quick, seed: 0, only: None, case: None, threads: 1 };
            props::c09::valid_set_nonempty(vt, &ctx)
        })
    })
}

static FORCED: OnceLock<Option<u8>> = OnceLock::new();

pub fn fuzz_one(reg: &'static [Entry], data: &[u8]) {
    install_hook();
    if data.len() < 3 || reg.is_empty() {
        return;
    }
    // VERIF_FUZZ_PROP pins the campaign to one property (the selector byte is then ignored)
    let forced = *FORCED.get_or_init(|| std::env::var("VERIF_FUZZ_PROP").ok().and_then(|s| s.parse::<u8>().ok()));
    let sel = forced.unwrap_or(data[0]);
    let ix = u16::from_le_bytes([data[1], data[2]]) as usize % reg.len();
    let payload = &data[3..];
    let e = &reg[ix];
    let r = with_entry!(e, vt => one(vt, sel, payload).map(|(p, c, o)| (p, c, o, vt.id, vt.decl)));
    let Some((prop, case, outcome, id, decl)) = r else { return };
    if let Some(f) = outcome.fail {
        if known().iter().any(|(p, g)| *p == prop && glob_match(g, &f.signature)) {
            return;
        }
        let msg = json!({"prop": prop, "decl_id": id, "decl": decl, "signature": f.signature, "case": case, "expected": f.expected, "actual": f.actual});
        panic!("VERIF-VIOLATION {msg}");
    }
}
